(* C07 / C08: the specification's verification algorithm (RefVerify.rprocess: top-down, one pass, digest table,
   no code shared with the restorer model) computes the same projection as the library model's restorer. *)
From Coq Require Import List String Ascii Bool Arith Lia Sorting.Sorted Permutation.
Import ListNotations.
Require Import SDJ.Json SDJ.Model2 SDJ.ATree SDJ.T2a SDJ.T2b SDJ.T2c SDJ.T2d SDJ.T2e SDJ.T2f SDJ.T2h SDJ.T2j SDJ.T2k SDJ.T2m SDJ.Issuer1 SDJ.T1a SDJ.T1b SDJ.T1c SDJ.T1m SDJ.RefVerify.
Local Open Scope string_scope.

(* ---------- sorted association lists ---------- *)
Definition ksorted (l : list (string * json)) : Prop := StronglySorted slt (map fst l).

Lemma sorted_insert_in k v : forall l kv, In kv (sorted_insert k v l) -> kv = (k, v) \/ In kv l.
Proof.
  induction l as [|[k' v'] r IH]; intros kv Hin; cbn [sorted_insert] in Hin.
  - destruct Hin as [<-|[]]. auto.
  - destruct (String.compare k k'); cbn [In] in Hin.
    + destruct Hin as [<-|Hin]; auto. right. right. assumption.
    + destruct Hin as [<-|Hin]; auto.
    + destruct Hin as [<-|Hin]; [right; left; reflexivity|]. destruct (IH _ Hin); auto. right. right. assumption.
Qed.

Lemma sorted_insert_keeps k v : forall l kv, ~ In k (map fst l) -> In kv l -> In kv (sorted_insert k v l).
Proof.
  induction l as [|[k' v'] r IH]; intros kv Hni Hin; [destruct Hin|]. cbn [sorted_insert].
  destruct (String.compare k k') eqn:Ec.
  - exfalso. apply String.compare_eq_iff in Ec. apply Hni. left. symmetry. exact Ec.
  - right. assumption.
  - destruct Hin as [<-|Hin]; [left; reflexivity|right; apply IH; [intros Hk; apply Hni; right; assumption|assumption]].
Qed.

Lemma sorted_insert_new k v : forall l, In (k, v) (sorted_insert k v l).
Proof.
  induction l as [|[k' v'] r IH]; cbn [sorted_insert]; [left; reflexivity|].
  destruct (String.compare k k'); [left; reflexivity|left; reflexivity|right; exact IH].
Qed.

Lemma sorted_insert_sorted k v : forall l, ksorted l -> ksorted (sorted_insert k v l).
Proof.
  unfold ksorted. induction l as [|[k' v'] r IH]; intros Hs; cbn [sorted_insert]; [cbn; constructor; constructor|].
  cbn [map fst] in Hs. apply StronglySorted_inv in Hs as [Hs Hf].
  destruct (String.compare k k') eqn:Ec; cbn [map fst].
  - apply String.compare_eq_iff in Ec. subst k'. constructor; assumption.
  - constructor; [constructor; assumption|]. constructor; [exact Ec|].
    eapply Forall_impl; [|exact Hf]. intros a Ha. eapply slt_trans; eauto.
  - constructor; [apply IH; assumption|]. apply Forall_forall. intros y Hy. apply in_map_iff in Hy as [[k2 v2] [<- Hin]].
    apply sorted_insert_in in Hin as [Hq|Hin]; cbn [fst].
    + injection Hq as -> _. unfold slt. rewrite String.compare_antisym, Ec. reflexivity.
    + rewrite Forall_forall in Hf. apply Hf. apply in_map_iff. exists (k2, v2). auto.
Qed.

(* strictly key-sorted lists with the same elements are equal *)
Lemma ksorted_ext : forall l1 l2 : list (string * json), ksorted l1 -> ksorted l2 -> (forall kv, In kv l1 <-> In kv l2) -> l1 = l2.
Proof.
  unfold ksorted. induction l1 as [|[k1 v1] r1 IH]; intros l2 H1 H2 Hext.
  - destruct l2 as [|x r2]; [reflexivity|]. exfalso. apply (Hext x). left. reflexivity.
  - destruct l2 as [|[k2 v2] r2]; [exfalso; apply (Hext (k1, v1)); left; reflexivity|].
    cbn [map fst] in H1, H2. apply StronglySorted_inv in H1 as [H1 F1]. apply StronglySorted_inv in H2 as [H2 F2].
    rewrite Forall_forall in F1, F2.
    assert (Hhead : (k1, v1) = (k2, v2)).
    { destruct (proj1 (Hext (k1, v1)) (or_introl eq_refl)) as [Hq|Hin]; [auto|].
      destruct (proj2 (Hext (k2, v2)) (or_introl eq_refl)) as [Hq|Hin2]; [auto|]. exfalso.
      assert (L1 : slt k2 k1) by (apply F2; apply in_map_iff; exists (k1, v1); auto).
      assert (L2 : slt k1 k2) by (apply F1; apply in_map_iff; exists (k2, v2); auto).
      exact (slt_irrefl _ (slt_trans _ _ _ L1 L2)). }
    injection Hhead as -> ->. f_equal. apply IH; [assumption|assumption|].
    intros kv. split; intros Hin.
    + destruct (proj1 (Hext kv) (or_intror Hin)) as [Hq|]; [|assumption]. exfalso. subst kv.
      assert (L : slt k2 k2) by (apply F1; apply in_map_iff; exists (k2, v2); auto). exact (slt_irrefl _ L).
    + destruct (proj2 (Hext kv) (or_intror Hin)) as [Hq|]; [|assumption]. exfalso. subst kv.
      assert (L : slt k2 k2) by (apply F2; apply in_map_iff; exists (k2, v2); auto). exact (slt_irrefl _ L).
Qed.

(* ---------- the folds of rprocess, named ---------- *)
Section Steps.
Variable T : rtable.
Definition stepP (fuel : nat) (acc : option (list (string * json) * rstate)) (kv : string * json) :=
  match acc with
  | None => None
  | Some (out, u) => match rprocess fuel T (snd kv) u with
                     | Some (v', u') => Some (sorted_insert (fst kv) v' out, u')
                     | None => None end
  end.
Definition stepD (fuel : nat) (acc : option (list (string * json) * rstate)) (d : json) :=
  match acc with
  | None => None
  | Some (out, u) =>
      match d with
      | JStr g =>
          match use_digest g u with
          | None => None
          | Some u1 =>
              match rlookup g T with
              | None => Some (out, u1)
              | Some (RElement _) => None
              | Some (RMember name v) =>
                  if String.eqb name "_sd" || String.eqb name "..." || has_key name out then None
                  else match rprocess fuel T v u1 with
                       | Some (v', u2) => Some (sorted_insert name v' out, u2)
                       | None => None end
              end
          end
      | _ => None
      end
  end.
Definition stepA (fuel : nat) (acc : option (list json * rstate)) (x : json) :=
  match acc with
  | None => None
  | Some (out, u) =>
      match single_placeholder x with
      | None => None
      | Some (Some (JStr g)) =>
          match use_digest g u with
          | None => None
          | Some u1 =>
              match rlookup g T with
              | None => Some (out, u1)
              | Some (RMember _ _) => None
              | Some (RElement v) =>
                  match rprocess fuel T v u1 with
                  | Some (v', u2) => Some ((out ++ [v'])%list, u2)
                  | None => None end
              end
          end
      | Some (Some _) => None
      | Some None =>
          match rprocess fuel T x u with
          | Some (x', u') => Some ((out ++ [x'])%list, u')
          | None => None end
      end
  end.

Lemma rprocess_obj fuel kvs used :
  rprocess (S fuel) T (JObj kvs) used =
  match fold_left (stepP fuel) (filter (fun kv => negb (String.eqb (fst kv) "_sd")) kvs) (Some ([], used)) with
  | None => None
  | Some (out, u) =>
      match find (fun kv => String.eqb (fst kv) "_sd") kvs with
      | None => Some (JObj out, u)
      | Some (_, JArr ds) => match fold_left (stepD fuel) ds (Some (out, u)) with Some (out2, u2) => Some (JObj out2, u2) | None => None end
      | Some (_, _) => None
      end
  end.
Proof. reflexivity. Qed.

Lemma rprocess_arr fuel xs used :
  rprocess (S fuel) T (JArr xs) used =
  match fold_left (stepA fuel) xs (Some ([], used)) with Some (out, u) => Some (JArr out, u) | None => None end.
Proof. reflexivity. Qed.

Lemma foldP_none fuel l : fold_left (stepP fuel) l None = None.
Proof. induction l; cbn; auto. Qed.
Lemma foldD_none fuel l : fold_left (stepD fuel) l None = None.
Proof. induction l; cbn; auto. Qed.
Lemma foldA_none fuel l : fold_left (stepA fuel) l None = None.
Proof. induction l; cbn; auto. Qed.
End Steps.

Section RP.
Variable H : string -> string.
Variable enc : list json -> string.
Variable T : rtable.
Notation blind := (blind H enc).
Notation proj := (proj H enc).
Notation wf := (wf H enc).
Notation hdigs := (hdigs H enc).
Notation alldigs := (alldigs H enc).
Notation dig_item := (dig_item H enc).
Notation dig_mem := (dig_mem H enc).
Notation IsNode := (IsNode H enc).
Notation hdigs_item := (hdigs_item H enc).
Notation hdigs_mem := (hdigs_mem H enc).
Notation adigs_item := (adigs_item H enc alldigs).
Notation adigs_mem := (adigs_mem alldigs).
Notation bitem := (bitem H enc).
Notation bmem := (bmem H enc).

(* the set of opened nodes is the set of digests the table knows *)
Definition RT : Rset := fun g => match rlookup g T with Some _ => true | None => false end.
Definition rd (k : option string) (v : json) : rdisc := match k with Some name => RMember name v | None => RElement v end.

(* every table entry for a digest embedded in t is the disclosure of the hidden node with that digest *)
Definition table_ok (t : atree) : Prop :=
  forall g r, In g (alldigs t) -> rlookup g T = Some r -> exists k v, IsNode g k v t /\ r = rd k v.

Lemma has_key_false k (kvs : list (string * json)) : ~ In k (map fst kvs) -> has_key k kvs = false.
Proof.
  intros Hn. unfold has_key. apply not_true_is_false. intros Ht. apply existsb_exists in Ht as [kv [Hin Hq]].
  apply String.eqb_eq in Hq. apply Hn. apply in_map_iff. exists kv. auto.
Qed.

Lemma single_placeholder_blind s : wf s -> single_placeholder (blind s) = Some None.
Proof.
  intros Hw. destruct s as [j|items|mems]; [inversion Hw; subst; destruct j; cbn in *; tauto || reflexivity|reflexivity|].
  rewrite (blind_obj H enc). unfold single_placeholder. rewrite has_key_false; [reflexivity|].
  intros Hk. apply (keys_bmems H enc) in Hk. apply in_map_iff in Hk as [[name [mk s]] [Hn Hin]]. cbn in Hn. subst name.
  inversion Hw as [| | ? Hs Hall Hok]; subst. rewrite Forall_forall in Hok. specialize (Hok _ Hin). cbn in Hok. tauto.
Qed.

(* ---- table_ok is inherited by the children that can contain nodes ---- *)
Lemma table_ok_item items ik s :
  wf (AArr items) -> NoDup (alldigs (AArr items)) -> In (ik, s) items ->
  (match ik with IDecoy _ => False | _ => True end) -> table_ok (AArr items) -> table_ok s.
Proof.
  intros Hw Hnd Hin Hik Hok g r Hg Hr. inversion Hw as [| ? Hall Hiok |]; subst. rewrite alldigs_arr in Hnd.
  rewrite Forall_forall in Hall, Hiok.
  assert (Hga : In g (adigs_item (ik, s))) by (destruct ik; cbn; auto; destruct Hik).
  destruct (Hok g r) as (k & v & Hnode & Hq); [rewrite alldigs_arr; apply in_flat_map; eauto|assumption|].
  exists k, v. split; [|assumption].
  apply IsNode_arr_inv in Hnode as [(salt' & s' & Hin' & Hg' & _)|(ik' & s' & Hin' & Hn')].
  - exfalso. assert (Hq2 : (IHid salt', s') = (ik, s)).
    { eapply (NoDup_flat_map_same adigs_item); eauto. cbn. left. symmetry. assumption. }
    injection Hq2 as <- <-. pose proof (NoDup_flat_map_in adigs_item _ _ Hnd Hin) as Hn1. cbn in Hn1. inversion Hn1; subst. contradiction.
  - assert (Hg2 : In g (adigs_item (ik', s'))).
    { pose proof (IsNode_hdigs H enc _ _ _ _ Hn') as Hh. pose proof (hdigs_alldigs H enc s' (Hall _ Hin') _ Hh) as Ha.
      destruct ik'; cbn; auto. specialize (Hiok _ Hin'). cbn in Hiok. subst s'. destruct Ha. }
    assert (Hq2 : (ik', s') = (ik, s)) by (eapply (NoDup_flat_map_same adigs_item); eauto).
    injection Hq2 as _ <-. assumption.
Qed.

Lemma table_ok_mem mems name mk s :
  wf (AObj mems) -> NoDup (alldigs (AObj mems)) -> In (name, (mk, s)) mems ->
  (match mk with MSd _ => False | _ => True end) -> table_ok (AObj mems) -> table_ok s.
Proof.
  intros Hw Hnd Hin Hmk Hok g r Hg Hr. inversion Hw as [| | ? Hs Hall Hmok]; subst. rewrite alldigs_obj in Hnd.
  rewrite Forall_forall in Hall, Hmok.
  assert (Hga : In g (adigs_mem (name, (mk, s)))) by (destruct mk; cbn; auto; destruct Hmk).
  destruct (Hok g r) as (k & v & Hnode & Hq); [rewrite alldigs_obj; apply in_flat_map; eauto|assumption|].
  exists k, v. split; [|assumption].
  apply IsNode_obj_inv in Hnode as [(name' & salt' & s' & Hin' & Hg' & _)|(name' & mk' & s' & Hin' & Hn')].
  - (* the digest of a hidden member lives in the _sd list: another member than ours *)
    exfalso. pose proof (Hmok _ Hin') as Hm'. cbn in Hm'. destruct Hm' as (_ & _ & Hsd).
    unfold sd_of in Hsd. apply in_flat_map in Hsd as [[ny [ky sy]] [Hy Hgl]]. cbn in Hgl. destruct ky as [| |l]; try destruct Hgl.
    rewrite <- Hg' in Hgl.
    assert (Hq2 : (ny, (MSd l, sy)) = (name, (mk, s))) by (eapply (NoDup_flat_map_same adigs_mem); eauto).
    injection Hq2 as _ <- _. destruct Hmk.
  - assert (Hg2 : In g (adigs_mem (name', (mk', s')))).
    { pose proof (IsNode_hdigs H enc _ _ _ _ Hn') as Hh. pose proof (hdigs_alldigs H enc s' (Hall _ Hin') _ Hh) as Ha.
      destruct mk'; cbn; auto. pose proof (Hmok _ Hin') as Hm'. cbn in Hm'. destruct Hm' as (_ & _ & ->). destruct Ha. }
    assert (Hq2 : (name', (mk', s')) = (name, (mk, s))) by (eapply (NoDup_flat_map_same adigs_mem); eauto).
    injection Hq2 as _ _ <-. assumption.
Qed.
End RP.

Section RP2.
Variable H : string -> string.
Variable enc : list json -> string.
Variable T : rtable.
Notation blind := (blind H enc).
Notation proj := (proj H enc).
Notation wf := (wf H enc).
Notation hdigs := (hdigs H enc).
Notation alldigs := (alldigs H enc).
Notation dig_item := (dig_item H enc).
Notation dig_mem := (dig_mem H enc).
Notation IsNode := (IsNode H enc).
Notation hdigs_item := (hdigs_item H enc).
Notation hdigs_mem := (hdigs_mem H enc).
Notation adigs_item := (adigs_item H enc alldigs).
Notation adigs_mem := (adigs_mem alldigs).
Notation bitem := (bitem H enc).
Notation bmem := (bmem H enc).
Notation RT := (RT T).
Notation table_ok := (table_ok H enc T).
Notation stepA := (stepA T).
Notation stepP := (stepP T).
Notation stepD := (stepD T).

(* "whenever the reference verifier accepts this subtree, its output is the projection" *)
Definition sound_at (s : atree) : Prop :=
  forall fuel u j u', rprocess fuel T (blind s) u = Some (j, u') -> j = proj RT s.

(* ---------- arrays ---------- *)
Definition pitem (it : ikind * atree) : list json :=
  let '(k, s) := it in
  match k with
  | IPlain => [proj RT s]
  | IHid salt => if RT (dig_item salt s) then [proj RT s] else []
  | IDecoy _ => [] end.

Definition item_fact (it : ikind * atree) : Prop :=
  let '(k, s) := it in
  match k with
  | IPlain => wf s /\ sound_at s
  | IHid salt => wf s /\ sound_at s /\ forall r, rlookup (dig_item salt s) T = Some r -> r = RElement (blind s)
  | IDecoy g0 => rlookup g0 T = None end.

Lemma foldA_sound fuel : forall items out u out' u',
  Forall item_fact items ->
  fold_left (stepA fuel) (map bitem items) (Some (out, u)) = Some (out', u') ->
  out' = (out ++ flat_map pitem items)%list.
Proof.
  induction items as [|[k s] r IH]; intros out u out' u' HF Hf.
  - cbn in Hf. injection Hf as <- _. cbn. rewrite app_nil_r. reflexivity.
  - inversion HF as [|? ? Hit HFr]; subst. cbn [map fold_left] in Hf.
    destruct k as [|salt|g0]; cbn [T1b.bitem] in Hf; cbn [item_fact] in Hit.
    + destruct Hit as [Hws Hsound]. unfold RefProofs.stepA at 2 in Hf. rewrite (single_placeholder_blind H enc s Hws) in Hf.
      destruct (rprocess fuel T (blind s) u) as [[x' u1]|] eqn:Er; [|rewrite foldA_none in Hf; discriminate].
      rewrite (IH _ _ _ _ HFr Hf). rewrite (Hsound _ _ _ _ Er). cbn [flat_map pitem]. rewrite <- app_assoc. reflexivity.
    + destruct Hit as (Hws & Hsound & Hlook). unfold RefProofs.stepA at 2 in Hf.
      change (single_placeholder (placeholder (dig_item salt s))) with (Some (Some (JStr (dig_item salt s)))) in Hf. cbv iota in Hf.
      destruct (use_digest (dig_item salt s) u) as [u1|]; [|rewrite foldA_none in Hf; discriminate].
      cbn [flat_map pitem]. unfold RefProofs.RT at 1.
      destruct (rlookup (dig_item salt s) T) as [r0|] eqn:El.
      * rewrite (Hlook r0 eq_refl) in Hf.
        destruct (rprocess fuel T (blind s) u1) as [[v' u2]|] eqn:Er; [|rewrite foldA_none in Hf; discriminate].
        rewrite (IH _ _ _ _ HFr Hf). rewrite (Hsound _ _ _ _ Er). rewrite <- app_assoc. reflexivity.
      * rewrite (IH _ _ _ _ HFr Hf). reflexivity.
    + unfold RefProofs.stepA at 2 in Hf.
      change (single_placeholder (placeholder g0)) with (Some (Some (JStr g0))) in Hf. cbv iota in Hf.
      destruct (use_digest g0 u) as [u1|]; [|rewrite foldA_none in Hf; discriminate].
      rewrite Hit in Hf. rewrite (IH _ _ _ _ HFr Hf). reflexivity.
Qed.

(* ---------- objects ---------- *)
Definition plm (m : string * (mkind * atree)) : list (string * json) :=
  let '(name, (k, s)) := m in match k with MPlain => [(name, blind s)] | _ => [] end.
Definition ppl (m : string * (mkind * atree)) : list (string * json) :=
  let '(name, (k, s)) := m in match k with MPlain => [(name, proj RT s)] | _ => [] end.
Definition msd_list (mems : amems) : option (list string) :=
  match find (fun m : string * (mkind * atree) => match fst (snd m) with MSd _ => true | _ => false end) mems with
  | Some (_, (MSd l, _)) => Some l
  | _ => None end.

Lemma filter_plain : forall mems : amems, Forall sd_names_ok mems ->
  filter (fun kv : string * json => negb (String.eqb (fst kv) "_sd")) (flat_map bmem mems) = flat_map plm mems.
Proof.
  induction mems as [|[n [k s]] r IH]; intros Hn; [reflexivity|]. inversion Hn as [|? ? Hn1 Hn2]; subst.
  unfold sd_names_ok in Hn1. cbn in Hn1. cbn [flat_map]. rewrite filter_app, IH by assumption.
  destruct k as [|salt|l]; cbn [T1b.bmem plm filter fst app].
  - destruct (String.eqb_spec n "_sd"); [contradiction|]. reflexivity.
  - reflexivity.
  - subst n. reflexivity.
Qed.

Lemma find_sd_blind : forall mems : amems, Forall sd_names_ok mems ->
  find (fun kv : string * json => String.eqb (fst kv) "_sd") (flat_map bmem mems) =
  match msd_list mems with Some l => Some ("_sd", JArr (map JStr l)) | None => None end.
Proof.
  unfold msd_list. induction mems as [|[n [k s]] r IH]; intros Hn; [reflexivity|]. inversion Hn as [|? ? Hn1 Hn2]; subst.
  unfold sd_names_ok in Hn1. cbn in Hn1. cbn [flat_map]. destruct k as [|salt|l]; cbn [T1b.bmem app find fst snd].
  - destruct (String.eqb_spec n "_sd"); [contradiction|]. apply IH. assumption.
  - apply IH. assumption.
  - subst n. reflexivity.
Qed.

Lemma sd_of_msd : forall mems : amems, NoDup (map fst mems) -> Forall sd_names_ok mems ->
  sd_of mems = match msd_list mems with Some l => l | None => [] end.
Proof.
  unfold msd_list, sd_of. induction mems as [|[n [k s]] r IH]; intros Hnd Hn; [reflexivity|].
  inversion Hn as [|? ? Hn1 Hn2]; subst. cbn [map fst] in Hnd. inversion Hnd as [|? ? Hni Hnd']; subst.
  unfold sd_names_ok in Hn1. cbn in Hn1. destruct k as [|salt|l]; cbn [flat_map find fst snd app].
  - apply IH; assumption.
  - apply IH; assumption.
  - subst n. (* no further _sd member *)
    assert (Hr : flat_map (fun m : string * (mkind * atree) => match fst (snd m) with MSd l0 => l0 | _ => [] end) r = []).
    { clear -Hni Hn2. induction r as [|[n' [k' s']] r' IHr]; [reflexivity|]. inversion Hn2 as [|? ? Hn1' Hn2']; subst.
      unfold sd_names_ok in Hn1'. cbn in Hn1'. cbn [flat_map fst snd map] in Hni |- *.
      assert (H1 : ~ In "_sd" (map fst r')) by (intros Hin; apply Hni; right; assumption).
      destruct k' as [|salt'|l']; cbn [app].
      - exact (IHr Hn2' H1).
      - exact (IHr Hn2' H1).
      - exfalso. apply Hni. left. assumption. }
    rewrite Hr, app_nil_r. reflexivity.
Qed.

Lemma has_key_false_inv k (kvs : list (string * json)) : has_key k kvs = false -> ~ In k (map fst kvs).
Proof.
  intros Hf Hin. apply in_map_iff in Hin as [kv [Hq Hkv]]. unfold has_key in Hf.
  assert (Ht : existsb (fun kv0 : string * json => String.eqb (fst kv0) k) kvs = true).
  { apply existsb_exists. exists kv. split; [assumption|]. rewrite Hq. apply String.eqb_refl. }
  congruence.
Qed.

Lemma foldP_sound fuel : forall (mems : amems) out u out' u',
  Forall (fun m : string * (mkind * atree) => match fst (snd m) with MPlain => sound_at (snd (snd m)) | _ => True end) mems ->
  NoDup (map fst mems) -> (forall n, In n (map fst mems) -> ~ In n (map fst out)) -> ksorted out ->
  fold_left (stepP fuel) (flat_map plm mems) (Some (out, u)) = Some (out', u') ->
  ksorted out' /\ (forall kv, In kv out' <-> In kv out \/ In kv (flat_map ppl mems)) /\
  (forall n, In n (map fst out') -> In n (map fst out) \/ In n (map fst mems)).
Proof.
  induction mems as [|[n [k s]] r IH]; intros out u out' u' HF Hnd Hdis Hso Hf.
  - cbn in Hf. injection Hf as <- _. split; [assumption|]. split; [intros kv; cbn; tauto|auto].
  - inversion HF as [|? ? Hm HFr]; subst. cbn [map fst] in Hnd. inversion Hnd as [|? ? Hni Hnd']; subst.
    cbn [flat_map] in Hf |- *. destruct k as [|salt|l]; cbn [plm ppl app] in Hf |- *.
    + cbn [fst snd] in Hm. cbn [fold_left] in Hf. unfold RefProofs.stepP at 2 in Hf. cbn [fst snd] in Hf.
      destruct (rprocess fuel T (blind s) u) as [[v' u1]|] eqn:Er; [|rewrite foldP_none in Hf; discriminate].
      rewrite (Hm _ _ _ _ Er) in Hf.
      assert (Hnout : ~ In n (map fst out)) by (apply Hdis; left; reflexivity).
      destruct (IH (sorted_insert n (proj RT s) out) u1 out' u' HFr Hnd') as (Hs' & Hel & Hk); [| |assumption|].
      * intros n' Hn' Hin. apply in_map_iff in Hin as [kv [Hq Hkv]]. apply sorted_insert_in in Hkv as [->|Hkv].
        -- cbn in Hq. subst n'. contradiction.
        -- apply (Hdis n'); [right; assumption|]. apply in_map_iff. exists kv. auto.
      * apply sorted_insert_sorted. assumption.
      * split; [assumption|]. split.
        -- intros kv. rewrite Hel. split.
           ++ intros [Hin|Hin]; [|right; right; assumption]. apply sorted_insert_in in Hin as [->|Hin]; [right; left; reflexivity|left; assumption].
           ++ intros [Hin|[<-|Hin]]; [left; apply sorted_insert_keeps; assumption|left; apply sorted_insert_new|right; assumption].
        -- intros n' Hn'. destruct (Hk n' Hn') as [Hin|Hin]; [|right; right; assumption].
           apply in_map_iff in Hin as [kv [Hq Hkv]]. apply sorted_insert_in in Hkv as [->|Hkv].
           ++ right. left. cbn in Hq |- *. exact Hq.
           ++ left. apply in_map_iff. exists kv. auto.
    + destruct (IH out u out' u' HFr Hnd') as (Hs' & Hel & Hk); [intros n' Hn'; apply Hdis; right; assumption|assumption|assumption|].
      split; [assumption|]. split; [assumption|]. intros n' Hn'. destruct (Hk n' Hn'); [left|right; right]; assumption.
    + destruct (IH out u out' u' HFr Hnd') as (Hs' & Hel & Hk); [intros n' Hn'; apply Hdis; right; assumption|assumption|assumption|].
      split; [assumption|]. split; [assumption|]. intros n' Hn'. destruct (Hk n' Hn'); [left|right; right]; assumption.
Qed.

(* what the table says about the digests of an _sd list *)
Definition dig_fact (mems : amems) (g : string) : Prop :=
  forall r, rlookup g T = Some r ->
    exists name salt s, In (name, (MHid salt, s)) mems /\ g = dig_mem salt name s /\ r = RMember name (blind s) /\ sound_at s.

Lemma foldD_sound fuel (mems : amems) : NoDup (flat_map hdigs_mem mems) -> forall l out u out' u',
  Forall (dig_fact mems) l -> ksorted out ->
  fold_left (stepD fuel) (map JStr l) (Some (out, u)) = Some (out', u') ->
  ksorted out' /\
  (forall kv, In kv out' <-> In kv out \/ exists g name salt s, In g l /\ In (name, (MHid salt, s)) mems /\ g = dig_mem salt name s /\ RT g = true /\ kv = (name, proj RT s)).
Proof.
  intros Hndh. induction l as [|g r IH]; intros out u out' u' HF Hso Hf.
  - cbn in Hf. injection Hf as <- _. split; [assumption|]. intros kv. split; [auto|]. intros [Hin|(g & ? & ? & ? & [] & _)]. assumption.
  - inversion HF as [|? ? Hg HFr]; subst. cbn [map fold_left] in Hf. unfold RefProofs.stepD at 2 in Hf.
    destruct (use_digest g u) as [u1|]; [|rewrite foldD_none in Hf; discriminate].
    destruct (rlookup g T) as [r0|] eqn:El.
    + destruct (Hg r0 El) as (name & salt & s & Hin & Hgq & -> & Hsound).
      destruct (String.eqb name "_sd" || String.eqb name "..." || has_key name out) eqn:Ec; [rewrite foldD_none in Hf; discriminate|].
      apply orb_false_iff in Ec as [_ Hhk]. apply has_key_false_inv in Hhk.
      destruct (rprocess fuel T (blind s) u1) as [[v' u2]|] eqn:Er; [|rewrite foldD_none in Hf; discriminate].
      rewrite (Hsound _ _ _ _ Er) in Hf.
      destruct (IH _ _ _ _ HFr (sorted_insert_sorted name (proj RT s) out Hso) Hf) as (Hs' & Hel).
      split; [assumption|]. intros kv. rewrite Hel. split.
      * intros [Hi|(g' & n' & sa' & s' & Hg' & Hm' & Hq' & HR' & ->)].
        -- apply sorted_insert_in in Hi as [->|Hi]; [|left; assumption].
           right. exists g, name, salt, s. split; [left; reflexivity|]. split; [assumption|]. split; [assumption|]. split; [|reflexivity].
           unfold RefProofs.RT. rewrite El. reflexivity.
        -- right. exists g', n', sa', s'. split; [right; assumption|auto].
      * intros [Hi|(g' & n' & sa' & s' & [<-|Hg'] & Hm' & Hq' & HR' & ->)].
        -- left. apply sorted_insert_keeps; assumption.
        -- (* the same digest: the same hidden member *)
           left. assert (Hsame : (n', (MHid sa', s')) = (name, (MHid salt, s))).
           { apply (NoDup_flat_map_same hdigs_mem mems _ _ g Hndh Hm' Hin); cbn; left; congruence. }
           injection Hsame as -> _ ->. apply sorted_insert_new.
        -- right. exists g', n', sa', s'. auto.
    + destruct (IH _ _ _ _ HFr Hso Hf) as (Hs' & Hel). split; [assumption|]. intros kv. rewrite Hel. split.
      * intros [Hi|(g' & n' & sa' & s' & Hg' & Hrest)]; [left; assumption|]. right. exists g', n', sa', s'. split; [right; assumption|assumption].
      * intros [Hi|(g' & n' & sa' & s' & [<-|Hg'] & Hm' & Hq' & HR' & ->)]; [left; assumption| |right; exists g', n', sa', s'; auto].
        exfalso. unfold RefProofs.RT in HR'. rewrite El in HR'. discriminate.
Qed.

Lemma ksorted_pmems R : forall mems : amems, StronglySorted slt (map fst mems) -> ksorted (flat_map (pmem H enc R) mems).
Proof.
  unfold ksorted. induction mems as [|[n [k s]] r IH]; intros Hs; [constructor|].
  cbn [map fst] in Hs. apply StronglySorted_inv in Hs as [Hs Hf]. specialize (IH Hs).
  assert (Hgt : Forall (slt n) (map fst (flat_map (pmem H enc R) r))).
  { apply Forall_forall. intros y Hy. apply (keys_pmems H enc) in Hy. rewrite Forall_forall in Hf. auto. }
  cbn [flat_map]. destruct k as [|salt|l]; cbn [T1m.pmem app map fst].
  - constructor; assumption.
  - destruct (R (dig_mem salt n s)); cbn [app map fst]; [constructor; assumption|assumption].
  - assumption.
Qed.

Lemma in_pmems (mems : amems) kv :
  In kv (flat_map (pmem H enc RT) mems) <->
  In kv (flat_map ppl mems) \/ exists name salt s, In (name, (MHid salt, s)) mems /\ RT (dig_mem salt name s) = true /\ kv = (name, proj RT s).
Proof.
  induction mems as [|[n [k s]] r IH]; [cbn; split; [tauto|intros [[]|(? & ? & ? & [] & _)]]|].
  cbn [flat_map]. rewrite !in_app_iff, IH. destruct k as [|salt|l]; cbn [T1m.pmem ppl].
  - split.
    + intros [Hh|[Hp|(n' & sa & s' & Hin & Hrest)]]; [left; left; assumption|left; right; assumption|right; exists n', sa, s'; split; [right; assumption|assumption]].
    + intros [[Hh|Hp]|(n' & sa & s' & [Hq|Hin] & Hrest)]; [left; assumption|right; left; assumption|discriminate|right; right; exists n', sa, s'; auto].
  - split.
    + intros [Hh|[Hp|(n' & sa & s' & Hin & Hrest)]].
      * destruct (RT (dig_mem salt n s)) eqn:ER; [|destruct Hh]. destruct Hh as [<-|[]]. right. exists n, salt, s. split; [left; reflexivity|auto].
      * left. right. assumption.
      * right. exists n', sa, s'. split; [right; assumption|assumption].
    + intros [[[]|Hp]|(n' & sa & s' & [Hq|Hin] & HR & ->)].
      * right. left. assumption.
      * injection Hq as <- <- <-. left. rewrite HR. left. reflexivity.
      * right. right. exists n', sa, s'. auto.
  - split.
    + intros [[]|[Hp|(n' & sa & s' & Hin & Hrest)]]; [left; right; assumption|right; exists n', sa, s'; split; [right; assumption|assumption]].
    + intros [[[]|Hp]|(n' & sa & s' & [Hq|Hin] & Hrest)]; [right; left; assumption|discriminate|right; right; exists n', sa, s'; auto].
Qed.

(* ---------- the theorem ---------- *)
Theorem rprocess_sound : forall t, wf t -> NoDup (alldigs t) -> NoDup (hdigs t) -> table_ok t -> sound_at t.
Proof.
  induction t as [j | items IH | mems IH] using atree_ind'; intros Hw Hnd Hndh Hok fuel used j0 used' Hr.
  - inversion Hw as [? Hsc| |]; subst. destruct fuel as [|fuel]; [discriminate|]. cbn [ATree.blind] in Hr.
    destruct j; cbn in Hsc; try destruct Hsc; cbn in Hr; injection Hr as <- _; reflexivity.
  - (* arrays *)
    destruct fuel as [|fuel]; [discriminate|]. rewrite (blind_arr H enc), rprocess_arr in Hr.
    destruct (fold_left (stepA fuel) (map bitem items) (Some ([], used))) as [[out u]|] eqn:Ef; [|discriminate]. injection Hr as <- _.
    assert (HF : Forall item_fact items).
    { inversion Hw as [| ? Hall Hiok |]; subst. pose proof Hnd as Hnd0. pose proof Hndh as Hndh0.
      rewrite alldigs_arr in Hnd. rewrite (hdigs_arr H enc) in Hndh.
      rewrite Forall_forall in IH, Hall, Hiok |- *. intros [k s] Hin. specialize (IH _ Hin). cbn in IH.
      pose proof (Hall _ Hin) as Hws. cbn in Hws.
      pose proof (NoDup_flat_map_in adigs_item _ _ Hnd Hin) as Hn1. pose proof (NoDup_flat_map_in hdigs_item _ _ Hndh Hin) as Hn2.
      destruct k as [|salt|g0]; cbn [item_fact]; cbn in Hn1, Hn2.
      + split; [assumption|]. apply IH; try assumption. eapply (table_ok_item H enc T); eauto. exact I.
      + inversion Hn1; subst. inversion Hn2; subst.
        split; [assumption|]. split; [apply IH; try assumption; eapply (table_ok_item H enc T); eauto; exact I|].
        intros r Hl. destruct (Hok (dig_item salt s) r) as (k & v & Hnode & ->); [rewrite alldigs_arr; apply in_flat_map; exists (IHid salt, s); split; [assumption|left; reflexivity]|assumption|].
        assert (Hhere : IsNode (dig_item salt s) None (blind s) (AArr items)) by (eapply in_item_here; eauto).
        destruct (IsNode_fun H enc _ _ _ _ _ _ Hndh0 Hnode Hhere) as [-> ->]. reflexivity.
      + destruct (rlookup g0 T) as [r|] eqn:El; [exfalso|reflexivity].
        destruct (Hok g0 r) as (k & v & Hnode & _); [rewrite alldigs_arr; apply in_flat_map; exists (IDecoy g0, s); split; [assumption|left; reflexivity]|assumption|].
        pose proof (IsNode_hdigs H enc _ _ _ _ Hnode) as Hh. rewrite (hdigs_arr H enc) in Hh. apply in_flat_map in Hh as [it' [Hin' Hg']].
        assert (Hga' : In g0 (adigs_item it')) by (apply (hdigs_item_adigs H enc); auto; apply (Hall _ Hin')).
        assert (Hq : it' = (IDecoy g0, s)) by (eapply (NoDup_flat_map_same adigs_item); eauto; cbn; auto).
        subst it'. specialize (Hiok _ Hin). cbn in Hiok. subst s. destruct Hg'. }
    rewrite (foldA_sound fuel items [] used out u HF Ef). reflexivity.
  - (* objects *)
    destruct fuel as [|fuel]; [discriminate|].
    inversion Hw as [| | ? Hs Hall Hmok]; subst.
    pose proof (names_ok_of_wf H enc mems Hw) as Hnames.
    pose proof (ssorted_nodup _ Hs) as Hndn.
    pose proof Hnd as Hnd0. pose proof Hndh as Hndh0.
    rewrite alldigs_obj in Hnd. rewrite (hdigs_obj H enc) in Hndh.
    rewrite (blind_obj H enc), rprocess_obj, (filter_plain mems Hnames), (find_sd_blind mems Hnames) in Hr.
    destruct (fold_left (stepP fuel) (flat_map plm mems) (Some ([], used))) as [[out u]|] eqn:Ef1; [|discriminate].
    (* what we know about the children *)
    assert (Hchild : forall name mk s, In (name, (mk, s)) mems -> (match mk with MSd _ => False | _ => True end) -> sound_at s).
    { intros name mk s Hin Hmk. rewrite Forall_forall in IH, Hall. specialize (IH _ Hin). cbn in IH. apply IH.
      - exact (Hall _ Hin).
      - pose proof (NoDup_flat_map_in adigs_mem _ _ Hnd Hin) as Hn1. destruct mk; cbn in Hn1; [assumption|assumption|destruct Hmk].
      - pose proof (NoDup_flat_map_in hdigs_mem _ _ Hndh Hin) as Hn2. destruct mk; cbn in Hn2; [assumption|inversion Hn2; assumption|destruct Hmk].
      - eapply (table_ok_mem H enc T); eauto. }
    assert (HFp : Forall (fun m : string * (mkind * atree) => match fst (snd m) with MPlain => sound_at (snd (snd m)) | _ => True end) mems).
    { apply Forall_forall. intros [name [mk s]] Hin. cbn. destruct mk; try exact I. eapply Hchild; eauto. exact I. }
    destruct (foldP_sound fuel mems [] used out u HFp Hndn (fun _ _ Hf => Hf) (SSorted_nil _) Ef1) as (Hso1 & Hel1 & _).
    rewrite (proj_obj H enc).
    assert (Hsd := sd_of_msd mems Hndn Hnames).
    assert (Hhid_in : forall name salt s, In (name, (MHid salt, s)) mems -> In (dig_mem salt name s) (sd_of mems)).
    { intros name salt s Hin. rewrite Forall_forall in Hmok. specialize (Hmok _ Hin). cbn in Hmok. tauto. }
    destruct (msd_list mems) as [l|] eqn:Em.
    + destruct (fold_left (stepD fuel) (map JStr l) (Some (out, u))) as [[out2 u2]|] eqn:Ef2; [|discriminate]. injection Hr as <- _.
      (* the _sd member *)
      assert (Hsdmem : exists sy, In ("_sd", (MSd l, sy)) mems).
      { unfold msd_list in Em. destruct (find _ mems) as [[n0 [k0 s0]]|] eqn:Efd; [|discriminate]. destruct k0; try discriminate. injection Em as ->.
        apply find_some in Efd as [Hin _]. rewrite Forall_forall in Hnames. pose proof (Hnames _ Hin) as Hn0. unfold sd_names_ok in Hn0. cbn in Hn0. subst n0. eauto. }
      destruct Hsdmem as [sy Hsdin].
      assert (HFd : Forall (dig_fact mems) l).
      { apply Forall_forall. intros g Hg r Hl.
        destruct (Hok g r) as (k & v & Hnode & ->); [rewrite alldigs_obj; apply in_flat_map; exists ("_sd", (MSd l, sy)); split; [assumption|exact Hg]|assumption|].
        apply IsNode_obj_inv in Hnode as [(name & salt & s & Hin & Hgq & -> & ->)|(name' & mk' & s' & Hin' & Hn')].
        - exists name, salt, s. split; [assumption|]. split; [assumption|]. split; [reflexivity|]. eapply Hchild; eauto. exact I.
        - exfalso. rewrite Forall_forall in Hall, Hmok.
          assert (Hg2 : In g (adigs_mem (name', (mk', s')))).
          { pose proof (IsNode_hdigs H enc _ _ _ _ Hn') as Hh. pose proof (hdigs_alldigs H enc s' (Hall _ Hin') _ Hh) as Ha.
            destruct mk'; cbn; auto. pose proof (Hmok _ Hin') as Hm'. cbn in Hm'. destruct Hm' as (_ & _ & ->). destruct Ha. }
          assert (Hq : (name', (mk', s')) = ("_sd", (MSd l, sy))) by (eapply (NoDup_flat_map_same adigs_mem); eauto).
          injection Hq as _ -> ->. pose proof (Hmok _ Hsdin) as Hm'. cbn in Hm'. destruct Hm' as (_ & _ & ->). inversion Hn'. }
      destruct (foldD_sound fuel mems Hndh l out u out2 u2 HFd Hso1 Ef2) as (Hso2 & Hel2).
      f_equal. apply ksorted_ext; [assumption|apply ksorted_pmems; assumption|].
      intros kv. rewrite Hel2, Hel1, in_pmems. split.
      * intros [[[]|Hp]|(g & name & salt & s & Hg & Hin & Hgq & HR & ->)]; [left; assumption|].
        right. exists name, salt, s. rewrite <- Hgq. auto.
      * intros [Hp|(name & salt & s & Hin & HR & ->)]; [left; right; assumption|].
        right. exists (dig_mem salt name s), name, salt, s. split; [rewrite <- Hsd; apply Hhid_in; assumption|auto].
    + injection Hr as <- _. f_equal. apply ksorted_ext; [assumption|apply ksorted_pmems; assumption|].
      intros kv. rewrite Hel1, in_pmems. split.
      * intros [[]|Hp]. left. assumption.
      * intros [Hp|(name & salt & s & Hin & _)]; [right; assumption|].
        exfalso. pose proof (Hhid_in _ _ _ Hin) as Hx. rewrite Hsd in Hx. destruct Hx.
Qed.
End RP2.

(* ---------- completeness: the reference verifier accepts conformant presentations ---------- *)
Section RA.
Variable H : string -> string.
Variable enc : list json -> string.
Variable T : rtable.
Notation blind := (blind H enc).
Notation proj := (proj H enc).
Notation wf := (wf H enc).
Notation hdigs := (hdigs H enc).
Notation alldigs := (alldigs H enc).
Notation dig_item := (dig_item H enc).
Notation dig_mem := (dig_mem H enc).
Notation IsNode := (IsNode H enc).
Notation hdigs_item := (hdigs_item H enc).
Notation hdigs_mem := (hdigs_mem H enc).
Notation adigs_item := (adigs_item H enc alldigs).
Notation adigs_mem := (adigs_mem alldigs).
Notation bitem := (bitem H enc).
Notation bmem := (bmem H enc).
Notation table_ok := (table_ok H enc T).
Notation stepA := (stepA T).
Notation stepP := (stepP T).
Notation stepD := (stepD T).

Lemma use_digest_fresh g u : ~ In g u -> use_digest g u = Some (g :: u).
Proof.
  intros Hn. unfold use_digest. destruct (existsb (String.eqb g) u) eqn:E; [|reflexivity].
  exfalso. apply existsb_exists in E as [x [Hx Hq]]. apply String.eqb_eq in Hq. subst x. contradiction.
Qed.

(* with enough fuel and no digest of the subtree used yet, the reference verifier accepts the subtree and
   uses only digests of the subtree *)
Definition accept_at (s : atree) : Prop :=
  forall fuel u, aheight s <= fuel -> (forall g, In g (alldigs s) -> ~ In g u) ->
  exists j u', rprocess fuel T (blind s) u = Some (j, u') /\ (forall g, In g u' -> In g u \/ In g (alldigs s)).

Definition item_factA (it : ikind * atree) : Prop :=
  let '(k, s) := it in
  match k with
  | IPlain => wf s /\ accept_at s
  | IHid salt => wf s /\ accept_at s /\ forall r, rlookup (dig_item salt s) T = Some r -> r = RElement (blind s)
  | IDecoy g0 => rlookup g0 T = None end.

Lemma foldA_accept fuel : forall items out u,
  Forall item_factA items -> NoDup (flat_map adigs_item items) ->
  (forall g, In g (flat_map adigs_item items) -> ~ In g u) ->
  Forall (fun it : ikind * atree => match fst it with IDecoy _ => True | _ => aheight (snd it) <= fuel end) items ->
  exists out' u', fold_left (stepA fuel) (map bitem items) (Some (out, u)) = Some (out', u') /\
                  (forall g, In g u' -> In g u \/ In g (flat_map adigs_item items)).
Proof.
  induction items as [|[k s] r IH]; intros out u HF Hnd Hdis Hht.
  - exists out, u. split; [reflexivity|auto].
  - inversion HF as [|? ? Hit HFr]; subst. inversion Hht as [|? ? Hh1 Hhr]; subst. cbn [fst snd] in Hh1.
    cbn [flat_map] in Hnd, Hdis. pose proof (NoDup_app_l _ _ Hnd) as Hnd1. pose proof (NoDup_app_r _ _ Hnd) as Hndr.
    assert (Hrest : forall u1, (forall g, In g u1 -> In g u \/ In g (adigs_item (k, s))) ->
                     forall g, In g (flat_map adigs_item r) -> ~ In g u1).
    { intros u1 Hu1 g Hg Hin. destruct (Hu1 g Hin) as [Hu|Ha].
      - apply (Hdis g); [apply in_or_app; right; assumption|assumption].
      - exact (NoDup_app_disj _ _ g Hnd Ha Hg). }
    cbn [map fold_left]. destruct k as [|salt|g0]; cbn [T1b.bitem]; cbn [item_factA] in Hit.
    + destruct Hit as [Hws Hacc]. unfold RefProofs.stepA at 2. rewrite (single_placeholder_blind H enc s Hws).
      destruct (Hacc fuel u Hh1) as (x' & u1 & Hr & Hu1); [intros g Hg; apply Hdis; apply in_or_app; left; exact Hg|].
      rewrite Hr. destruct (IH (out ++ [x'])%list u1 HFr Hndr (Hrest u1 Hu1) Hhr) as (out' & u' & Hf & Hu').
      exists out', u'. split; [assumption|]. intros g Hg. cbn [flat_map]. rewrite in_app_iff.
      destruct (Hu' g Hg) as [H1|H1]; [destruct (Hu1 g H1); auto|auto].
    + destruct Hit as (Hws & Hacc & Hlook). unfold RefProofs.stepA at 2.
      change (single_placeholder (placeholder (dig_item salt s))) with (Some (Some (JStr (dig_item salt s)))). cbv iota.
      cbn [T2c.adigs_item] in Hnd1, Hdis, Hrest.
      rewrite use_digest_fresh by (apply Hdis; left; reflexivity).
      destruct (rlookup (dig_item salt s) T) as [r0|] eqn:El.
      * rewrite (Hlook r0 eq_refl).
        destruct (Hacc fuel (dig_item salt s :: u) Hh1) as (v' & u2 & Hr & Hu2).
        { intros g Hg [Hq|Hin]; [subst g; inversion Hnd1; subst; contradiction|].
          apply (Hdis g); [right; apply in_or_app; left; exact Hg|assumption]. }
        rewrite Hr.
        assert (Hu2' : forall g, In g u2 -> In g u \/ In g (dig_item salt s :: alldigs s)).
        { intros g Hg. destruct (Hu2 g Hg) as [[<-|Hu]|Ha]; [right; left; reflexivity|left; assumption|right; right; assumption]. }
        destruct (IH (out ++ [v'])%list u2 HFr Hndr (Hrest u2 Hu2') Hhr) as (out' & u' & Hf & Hu').
        exists out', u'. split; [assumption|]. intros g Hg. cbn [flat_map T2c.adigs_item]. rewrite in_app_iff.
        destruct (Hu' g Hg) as [H1|H1]; [destruct (Hu2' g H1); auto|auto].
      * assert (Hu1 : forall g, In g (dig_item salt s :: u) -> In g u \/ In g (dig_item salt s :: alldigs s)).
        { intros g [<-|Hg]; [right; left; reflexivity|left; assumption]. }
        destruct (IH out (dig_item salt s :: u) HFr Hndr (Hrest _ Hu1) Hhr) as (out' & u' & Hf & Hu').
        exists out', u'. split; [assumption|]. intros g Hg. cbn [flat_map T2c.adigs_item]. rewrite in_app_iff.
        destruct (Hu' g Hg) as [H1|H1]; [destruct (Hu1 g H1); auto|auto].
    + unfold RefProofs.stepA at 2.
      change (single_placeholder (placeholder g0)) with (Some (Some (JStr g0))). cbv iota.
      cbn [T2c.adigs_item] in Hnd1, Hdis, Hrest.
      rewrite use_digest_fresh by (apply Hdis; left; reflexivity). rewrite Hit.
      assert (Hu1 : forall g, In g (g0 :: u) -> In g u \/ In g [g0]).
      { intros g [<-|Hg]; [right; left; reflexivity|left; assumption]. }
      destruct (IH out (g0 :: u) HFr Hndr (Hrest _ Hu1) Hhr) as (out' & u' & Hf & Hu').
      exists out', u'. split; [assumption|]. intros g Hg. cbn [flat_map T2c.adigs_item]. rewrite in_app_iff.
      destruct (Hu' g Hg) as [H1|H1]; [destruct (Hu1 g H1); auto|auto].
Qed.

(* ---- objects: the plain members ---- *)
Definition pdg (m : string * (mkind * atree)) : list string :=
  let '(name, (k, s)) := m in match k with MPlain => alldigs s | _ => [] end.

Lemma pdg_sub m g : In g (pdg m) -> In g (adigs_mem m).
Proof. destruct m as [n [k s]]. destruct k; cbn; tauto. Qed.

Lemma foldP_accept fuel : forall (mems : amems) out u,
  Forall (fun m : string * (mkind * atree) => match fst (snd m) with MPlain => accept_at (snd (snd m)) /\ aheight (snd (snd m)) <= fuel | _ => True end) mems ->
  NoDup (flat_map adigs_mem mems) -> (forall g, In g (flat_map pdg mems) -> ~ In g u) ->
  exists out' u', fold_left (stepP fuel) (flat_map (plm H enc) mems) (Some (out, u)) = Some (out', u') /\
                  (forall g, In g u' -> In g u \/ In g (flat_map pdg mems)) /\
                  (forall n, In n (map fst out') -> In n (map fst out) \/ exists s, In (n, (MPlain, s)) mems).
Proof.
  induction mems as [|[n [k s]] r IH]; intros out u HF Hnd Hdis.
  - exists out, u. split; [reflexivity|]. split; auto.
  - inversion HF as [|? ? Hm HFr]; subst. cbn [flat_map] in Hnd, Hdis |- *.
    pose proof (NoDup_app_r _ _ Hnd) as Hndr.
    destruct k as [|salt|l]; cbn [plm pdg app] in Hdis |- *.
    + cbn [fst snd] in Hm. destruct Hm as [Hacc Hh]. cbn [fold_left]. unfold RefProofs.stepP at 2. cbn [fst snd].
      destruct (Hacc fuel u Hh) as (v' & u1 & Hr & Hu1); [intros g Hg; apply Hdis; apply in_or_app; left; exact Hg|].
      rewrite Hr.
      destruct (IH (sorted_insert n v' out) u1 HFr Hndr) as (out' & u' & Hf & Hu' & Hk').
      { intros g Hg Hin. destruct (Hu1 g Hin) as [Hu|Ha].
        - apply (Hdis g); [apply in_or_app; right; assumption|assumption].
        - apply (NoDup_app_disj _ _ g Hnd Ha). apply in_flat_map in Hg as [m [Hm' Hg]]. apply in_flat_map. exists m. split; [assumption|apply pdg_sub; assumption]. }
      exists out', u'. split; [assumption|]. split.
      * intros g Hg. rewrite in_app_iff. destruct (Hu' g Hg) as [H1|H1]; [destruct (Hu1 g H1); auto|auto].
      * intros n' Hn'. destruct (Hk' n' Hn') as [Hin|(s' & Hs')]; [|right; exists s'; right; assumption].
        apply in_map_iff in Hin as [kv [Hq Hkv]]. apply sorted_insert_in in Hkv as [->|Hkv].
        -- right. exists s. left. cbn in Hq. subst n'. reflexivity.
        -- left. apply in_map_iff. exists kv. auto.
    + destruct (IH out u HFr Hndr Hdis) as (out' & u' & Hf & Hu' & Hk'). exists out', u'. split; [assumption|]. split; [assumption|].
      intros n' Hn'. destruct (Hk' n' Hn') as [|(s' & Hs')]; [left; assumption|right; exists s'; right; assumption].
    + destruct (IH out u HFr Hndr Hdis) as (out' & u' & Hf & Hu' & Hk'). exists out', u'. split; [assumption|]. split; [assumption|].
      intros n' Hn'. destruct (Hk' n' Hn') as [|(s' & Hs')]; [left; assumption|right; exists s'; right; assumption].
Qed.

(* ---- objects: the digest list ---- *)
Section Dl.
Variable mems : amems.
Variable L : list string.
Variable sy : atree.
Hypothesis Hsd : In ("_sd", (MSd L, sy)) mems.
Hypothesis Hnd : NoDup (flat_map adigs_mem mems).
Hypothesis Hnames : NoDup (map fst mems).
Variable U0 : list string.
Hypothesis HU0L : forall g, In g U0 -> ~ In g L.
Hypothesis HU0h : forall g name salt s, In g U0 -> In (name, (MHid salt, s)) mems -> ~ In g (alldigs s).
Variable fuel : nat.

Definition dig_factA (g : string) : Prop :=
  forall r, rlookup g T = Some r ->
    exists name salt s, In (name, (MHid salt, s)) mems /\ g = dig_mem salt name s /\ r = RMember name (blind s) /\
                        accept_at s /\ aheight s <= fuel /\ name <> "_sd" /\ name <> "...".

Definition InvU (done : list string) (u : rstate) : Prop :=
  forall g', In g' u -> In g' U0 \/ In g' done \/
     exists name salt s, In (name, (MHid salt, s)) mems /\ In (dig_mem salt name s) done /\ In g' (alldigs s).
Definition InvK (done : list string) (out : list (string * json)) : Prop :=
  forall n, In n (map fst out) -> (exists s, In (n, (MPlain, s)) mems) \/
     exists salt s, In (n, (MHid salt, s)) mems /\ In (dig_mem salt n s) done.

Lemma mem_unique n x y : In (n, x) mems -> In (n, y) mems -> x = y.
Proof.
  clear -Hnames. induction mems as [|[n0 z] r IH]; [intros []|]. cbn [map fst] in Hnames. inversion Hnames as [|? ? Hni Hr]; subst.
  intros [Hx|Hx] [Hy|Hy].
  - congruence.
  - exfalso. injection Hx as -> _. apply Hni. apply in_map_iff. exists (n, y). auto.
  - exfalso. injection Hy as -> _. apply Hni. apply in_map_iff. exists (n, x). auto.
  - apply IH; assumption.
Qed.

Lemma L_vs_hidden g name salt s : In g L -> In (name, (MHid salt, s)) mems -> ~ In g (alldigs s).
Proof.
  intros HgL Hin Hgs.
  assert (Hq : ("_sd", (MSd L, sy)) = (name, (MHid salt, s))) by (eapply (NoDup_flat_map_same adigs_mem); eauto).
  discriminate.
Qed.

Lemma foldD_accept : forall l done out u,
  NoDup (done ++ l) -> incl (done ++ l) L -> InvU done u -> InvK done out -> Forall dig_factA l ->
  exists out' u', fold_left (stepD fuel) (map JStr l) (Some (out, u)) = Some (out', u') /\ InvU (done ++ l) u'.
Proof.
  induction l as [|g r IH]; intros done out u Hndl Hincl Hu Hk HF.
  - exists out, u. split; [reflexivity|]. rewrite app_nil_r. assumption.
  - inversion HF as [|? ? Hg HFr]; subst.
    assert (HgL : In g L) by (apply Hincl; apply in_or_app; right; left; reflexivity).
    assert (Hgdone : ~ In g done).
    { intros Hin. apply NoDup_remove_2 in Hndl. apply Hndl. apply in_or_app. left. assumption. }
    assert (Hgu : ~ In g u).
    { intros Hin. destruct (Hu g Hin) as [H0|[Hd|(name & salt & s & Hm & _ & Hgs)]].
      - exact (HU0L g H0 HgL).
      - contradiction.
      - exact (L_vs_hidden g name salt s HgL Hm Hgs). }
    assert (Hnd' : NoDup ((done ++ [g]) ++ r)) by (rewrite <- app_assoc; exact Hndl).
    assert (Hincl' : incl ((done ++ [g]) ++ r) L) by (rewrite <- app_assoc; exact Hincl).
    cbn [map fold_left]. unfold RefProofs.stepD at 2. rewrite (use_digest_fresh g u Hgu).
    destruct (rlookup g T) as [r0|] eqn:El.
    + destruct (Hg r0 El) as (name & salt & s & Hm & Hgq & -> & Hacc & Hh & Hn1 & Hn2).
      destruct (String.eqb_spec name "_sd"); [contradiction|]. destruct (String.eqb_spec name "..."); [contradiction|]. cbn [orb].
      assert (Hhk : has_key name out = false).
      { apply has_key_false. intros Hin. destruct (Hk name Hin) as [(s' & Hp)|(salt' & s' & Hm' & Hd')].
        - pose proof (mem_unique _ _ _ Hm Hp). discriminate.
        - pose proof (mem_unique _ _ _ Hm Hm') as Hq. injection Hq as <- <-. rewrite <- Hgq in Hd'. contradiction. }
      rewrite Hhk.
      destruct (Hacc fuel (g :: u) Hh) as (v' & u2 & Hr & Hu2).
      { intros x Hx [Hq|Hin].
        - subst x. exact (L_vs_hidden g name salt s HgL Hm Hx).
        - destruct (Hu x Hin) as [H0|[Hd|(name' & salt' & s' & Hm' & Hd' & Hxs')]].
          + exact (HU0h x name salt s H0 Hm Hx).
          + apply (L_vs_hidden x name salt s); [apply Hincl; apply in_or_app; left; assumption|assumption|assumption].
          + assert (Hq : (name', (MHid salt', s')) = (name, (MHid salt, s))).
            { eapply (NoDup_flat_map_same adigs_mem); eauto. }
            injection Hq as -> -> ->. rewrite <- Hgq in Hd'. contradiction. }
      rewrite Hr.
      destruct (IH (done ++ [g])%list (sorted_insert name v' out) u2 Hnd' Hincl') as (out' & u' & Hf & Hu'); [| |assumption|].
      * intros x Hx. destruct (Hu2 x Hx) as [[<-|Hxu]|Hxs].
        -- right. left. apply in_or_app. right. left. reflexivity.
        -- destruct (Hu x Hxu) as [H0|[Hd|(name' & salt' & s' & Hm' & Hd' & Hxs')]]; [left; assumption|right; left; apply in_or_app; left; assumption|].
           right. right. exists name', salt', s'. split; [assumption|]. split; [apply in_or_app; left; assumption|assumption].
        -- right. right. exists name, salt, s. split; [assumption|]. split; [rewrite <- Hgq; apply in_or_app; right; left; reflexivity|assumption].
      * intros n' Hn'. apply in_map_iff in Hn' as [kv [Hq Hkv]]. apply sorted_insert_in in Hkv as [->|Hkv].
        -- cbn in Hq. subst n'. right. exists salt, s. split; [assumption|]. rewrite <- Hgq. apply in_or_app. right. left. reflexivity.
        -- destruct (Hk n') as [Hp|(salt' & s' & Hm' & Hd')]; [apply in_map_iff; exists kv; auto|left; assumption|].
           right. exists salt', s'. split; [assumption|apply in_or_app; left; assumption].
      * exists out', u'. split; [assumption|]. rewrite <- app_assoc in Hu'. exact Hu'.
    + destruct (IH (done ++ [g])%list out (g :: u) Hnd' Hincl') as (out' & u' & Hf & Hu'); [| |assumption|].
      * intros x [<-|Hxu]; [right; left; apply in_or_app; right; left; reflexivity|].
        destruct (Hu x Hxu) as [H0|[Hd|(name' & salt' & s' & Hm' & Hd' & Hxs')]]; [left; assumption|right; left; apply in_or_app; left; assumption|].
        right. right. exists name', salt', s'. split; [assumption|]. split; [apply in_or_app; left; assumption|assumption].
      * intros n' Hn'. destruct (Hk n' Hn') as [Hp|(salt' & s' & Hm' & Hd')]; [left; assumption|].
        right. exists salt', s'. split; [assumption|apply in_or_app; left; assumption].
      * exists out', u'. split; [assumption|]. rewrite <- app_assoc in Hu'. exact Hu'.
Qed.
End Dl.

Lemma aheight_item_le items ik s fuel : aheight (AArr items) <= S fuel -> In (ik, s) items -> aheight s <= fuel.
Proof.
  intros Hh Hin. rewrite aheight_arr in Hh. apply le_S_n in Hh.
  pose proof (hmax_in item_h _ _ Hin) as Hm. unfold item_h in Hm. unfold item_h in Hh. destruct ik; lia.
Qed.

Lemma aheight_mem_le mems name mk s fuel : aheight (AObj mems) <= S fuel -> In (name, (mk, s)) mems ->
  (match mk with MSd _ => False | _ => True end) -> aheight s <= fuel.
Proof.
  intros Hh Hin Hmk. rewrite aheight_obj in Hh. apply le_S_n in Hh.
  pose proof (hmax_in mem_h _ _ Hin) as Hm. unfold mem_h in Hm. unfold mem_h in Hh. destruct mk; [lia|lia|destruct Hmk].
Qed.

Theorem rprocess_accepts : forall t, wf t -> NoDup (alldigs t) -> NoDup (hdigs t) -> table_ok t -> accept_at t.
Proof.
  induction t as [j | items IH | mems IH] using atree_ind'; intros Hw Hnd Hndh Hok fuel used Hh Hdis.
  - destruct fuel as [|fuel]; [cbn in Hh; lia|]. inversion Hw as [? Hsc| |]; subst. cbn [ATree.blind].
    exists j, used. split; [destruct j; cbn in Hsc; try destruct Hsc; reflexivity|auto].
  - destruct fuel as [|fuel]; [rewrite aheight_arr in Hh; lia|].
    assert (Hunf : rprocess (S fuel) T (blind (AArr items)) used =
                   match fold_left (stepA fuel) (map bitem items) (Some ([], used)) with Some (out, u) => Some (JArr out, u) | None => None end).
    { rewrite (blind_arr H enc), rprocess_arr. reflexivity. }
    inversion Hw as [| ? Hall Hiok |]; subst. pose proof Hnd as Hnd0. pose proof Hndh as Hndh0.
    rewrite alldigs_arr in Hnd, Hdis. rewrite (hdigs_arr H enc) in Hndh.
    assert (HF : Forall item_factA items).
    { rewrite Forall_forall in IH, Hall, Hiok |- *. intros [k s] Hin. specialize (IH _ Hin). cbn in IH.
      pose proof (Hall _ Hin) as Hws. cbn in Hws.
      pose proof (NoDup_flat_map_in adigs_item _ _ Hnd Hin) as Hn1. pose proof (NoDup_flat_map_in hdigs_item _ _ Hndh Hin) as Hn2.
      destruct k as [|salt|g0]; cbn [item_factA]; cbn in Hn1, Hn2.
      + split; [assumption|]. apply IH; try assumption. eapply (table_ok_item H enc T); eauto. exact I.
      + inversion Hn1; subst. inversion Hn2; subst.
        split; [assumption|]. split; [apply IH; try assumption; eapply (table_ok_item H enc T); eauto; exact I|].
        intros r Hl. destruct (Hok (dig_item salt s) r) as (k & v & Hnode & ->); [rewrite alldigs_arr; apply in_flat_map; exists (IHid salt, s); split; [assumption|left; reflexivity]|assumption|].
        assert (Hhere : IsNode (dig_item salt s) None (blind s) (AArr items)) by (eapply in_item_here; eauto).
        destruct (IsNode_fun H enc _ _ _ _ _ _ Hndh0 Hnode Hhere) as [-> ->]. reflexivity.
      + destruct (rlookup g0 T) as [r|] eqn:El; [exfalso|reflexivity].
        destruct (Hok g0 r) as (k & v & Hnode & _); [rewrite alldigs_arr; apply in_flat_map; exists (IDecoy g0, s); split; [assumption|left; reflexivity]|assumption|].
        pose proof (IsNode_hdigs H enc _ _ _ _ Hnode) as Hhd. rewrite (hdigs_arr H enc) in Hhd. apply in_flat_map in Hhd as [it' [Hin' Hg']].
        assert (Hga' : In g0 (adigs_item it')) by (apply (hdigs_item_adigs H enc); auto; apply (Hall _ Hin')).
        assert (Hq : it' = (IDecoy g0, s)) by (eapply (NoDup_flat_map_same adigs_item); eauto; cbn; auto).
        subst it'. specialize (Hiok _ Hin). cbn in Hiok. subst s. destruct Hg'. }
    assert (Hht : Forall (fun it : ikind * atree => match fst it with IDecoy _ => True | _ => aheight (snd it) <= fuel end) items).
    { apply Forall_forall. intros [k s] Hin. cbn. destruct k; try exact I; eapply aheight_item_le; eauto. }
    destruct (foldA_accept fuel items [] used HF Hnd Hdis Hht) as (out & u & Hf & Hu).
    exists (JArr out), u. split; [rewrite Hunf, Hf; reflexivity|]. intros g Hg. rewrite alldigs_arr. auto.
  - destruct fuel as [|fuel]; [rewrite aheight_obj in Hh; lia|].
    inversion Hw as [| | ? Hs Hall Hmok]; subst.
    pose proof (names_ok_of_wf H enc mems Hw) as Hnames.
    pose proof (ssorted_nodup _ Hs) as Hndn.
    pose proof Hnd as Hnd0. pose proof Hndh as Hndh0.
    rewrite alldigs_obj in Hnd, Hdis. rewrite (hdigs_obj H enc) in Hndh.
    assert (Hunf : rprocess (S fuel) T (blind (AObj mems)) used =
       match fold_left (stepP fuel) (flat_map (plm H enc) mems) (Some ([], used)) with
       | None => None
       | Some (out, u) =>
           match (match msd_list mems with Some l => Some ("_sd", JArr (map JStr l)) | None => None end) with
           | None => Some (JObj out, u)
           | Some (_, JArr ds) => match fold_left (stepD fuel) ds (Some (out, u)) with Some (out2, u2) => Some (JObj out2, u2) | None => None end
           | Some (_, _) => None
           end
       end).
    { rewrite (blind_obj H enc), rprocess_obj, (filter_plain H enc mems Hnames), (find_sd_blind H enc mems Hnames). reflexivity. }
    assert (Hchild : forall name mk s, In (name, (mk, s)) mems -> (match mk with MSd _ => False | _ => True end) -> accept_at s /\ aheight s <= fuel).
    { intros name mk s Hin Hmk. split; [|eapply aheight_mem_le; eauto]. rewrite Forall_forall in IH, Hall. specialize (IH _ Hin). cbn in IH. apply IH.
      - exact (Hall _ Hin).
      - pose proof (NoDup_flat_map_in adigs_mem _ _ Hnd Hin) as Hn1. destruct mk; cbn in Hn1; [assumption|assumption|destruct Hmk].
      - pose proof (NoDup_flat_map_in hdigs_mem _ _ Hndh Hin) as Hn2. destruct mk; cbn in Hn2; [assumption|inversion Hn2; assumption|destruct Hmk].
      - eapply (table_ok_mem H enc T); eauto. }
    assert (HFp : Forall (fun m : string * (mkind * atree) => match fst (snd m) with MPlain => accept_at (snd (snd m)) /\ aheight (snd (snd m)) <= fuel | _ => True end) mems).
    { apply Forall_forall. intros [name [mk s]] Hin. cbn. destruct mk; try exact I. eapply Hchild; eauto. exact I. }
    destruct (foldP_accept fuel mems [] used HFp Hnd) as (out & u & Hf1 & Hu1 & Hk1).
    { intros g Hg. apply Hdis. apply in_flat_map in Hg as [m [Hm Hg]]. apply in_flat_map. exists m. split; [assumption|apply pdg_sub; assumption]. }
    rewrite Hunf, Hf1.
    destruct (msd_list mems) as [l|] eqn:Em.
    + assert (Hsdmem : exists sy, In ("_sd", (MSd l, sy)) mems).
      { unfold msd_list in Em. destruct (find _ mems) as [[n0 [k0 s0]]|] eqn:Efd; [|discriminate]. destruct k0; try discriminate. injection Em as ->.
        apply find_some in Efd as [Hin _]. rewrite Forall_forall in Hnames. pose proof (Hnames _ Hin) as Hn0. unfold sd_names_ok in Hn0. cbn in Hn0. subst n0. eauto. }
      destruct Hsdmem as [sy Hsdin].
      set (U0 := (used ++ flat_map pdg mems)%list).
      assert (HU0L : forall g, In g U0 -> ~ In g l).
      { intros g Hg HgL. apply in_app_or in Hg as [Hg|Hg].
        - apply (Hdis g); [apply in_flat_map; exists ("_sd", (MSd l, sy)); split; [assumption|exact HgL]|assumption].
        - apply in_flat_map in Hg as [[n' [k' s']] [Hm' Hg]]. destruct k'; cbn in Hg; try destruct Hg.
          assert (Hq : ("_sd", (MSd l, sy)) = (n', (MPlain, s'))) by (eapply (NoDup_flat_map_same adigs_mem); eauto).
          discriminate. }
      assert (HU0h : forall g name salt s, In g U0 -> In (name, (MHid salt, s)) mems -> ~ In g (alldigs s)).
      { intros g name salt s Hg Hm Hgs. apply in_app_or in Hg as [Hg|Hg].
        - apply (Hdis g); [apply in_flat_map; exists (name, (MHid salt, s)); split; [assumption|exact Hgs]|assumption].
        - apply in_flat_map in Hg as [[n' [k' s']] [Hm' Hg]]. destruct k'; cbn in Hg; try destruct Hg.
          assert (Hq : (name, (MHid salt, s)) = (n', (MPlain, s'))) by (eapply (NoDup_flat_map_same adigs_mem); eauto).
          discriminate. }
      assert (HFd : Forall (dig_factA mems fuel) l).
      { apply Forall_forall. intros g Hg r Hl.
        destruct (Hok g r) as (k & v & Hnode & ->); [rewrite alldigs_obj; apply in_flat_map; exists ("_sd", (MSd l, sy)); split; [assumption|exact Hg]|assumption|].
        apply IsNode_obj_inv in Hnode as [(name & salt & s & Hin & Hgq & -> & ->)|(name' & mk' & s' & Hin' & Hn')].
        - exists name, salt, s. split; [assumption|]. split; [assumption|]. split; [reflexivity|].
          destruct (Hchild name (MHid salt) s Hin I) as [Hacc Hhs]. split; [assumption|]. split; [assumption|].
          rewrite Forall_forall in Hmok. specialize (Hmok _ Hin). cbn in Hmok. tauto.
        - exfalso. rewrite Forall_forall in Hall, Hmok.
          assert (Hg2 : In g (adigs_mem (name', (mk', s')))).
          { pose proof (IsNode_hdigs H enc _ _ _ _ Hn') as Hhd. pose proof (hdigs_alldigs H enc s' (Hall _ Hin') _ Hhd) as Ha.
            destruct mk'; cbn; auto. pose proof (Hmok _ Hin') as Hm'. cbn in Hm'. destruct Hm' as (_ & _ & ->). destruct Ha. }
          assert (Hq : (name', (mk', s')) = ("_sd", (MSd l, sy))) by (eapply (NoDup_flat_map_same adigs_mem); eauto).
          injection Hq as _ -> ->. pose proof (Hmok _ Hsdin) as Hm'. cbn in Hm'. destruct Hm' as (_ & _ & ->). inversion Hn'. }
      assert (Hndl : NoDup l) by (apply (NoDup_flat_map_in adigs_mem _ _ Hnd Hsdin)).
      destruct (foldD_accept mems l sy Hsdin Hnd Hndn U0 HU0L HU0h fuel l [] out u) as (out2 & u2 & Hf2 & Hu2).
      * exact Hndl.
      * apply incl_refl.
      * intros g' Hg'. left. unfold U0. apply in_or_app. destruct (Hu1 g' Hg'); auto.
      * intros n Hn. destruct (Hk1 n Hn) as [[]|Hp]. left. assumption.
      * assumption.
      * rewrite Hf2. exists (JObj out2), u2. split; [reflexivity|].
        intros g' Hg'. rewrite alldigs_obj. destruct (Hu2 g' Hg') as [H0|[Hd|(name & salt & s & Hm & _ & Hgs)]].
        -- unfold U0 in H0. apply in_app_or in H0 as [|H0]; [left; assumption|right].
           apply in_flat_map in H0 as [m [Hm Hg0]]. apply in_flat_map. exists m. split; [assumption|apply pdg_sub; assumption].
        -- right. apply in_flat_map. exists ("_sd", (MSd l, sy)). split; [assumption|exact Hd].
        -- right. apply in_flat_map. exists (name, (MHid salt, s)). split; [assumption|exact Hgs].
    + exists (JObj out), u. split; [reflexivity|]. intros g Hg. rewrite alldigs_obj. destruct (Hu1 g Hg) as [|H1]; [left; assumption|right].
      apply in_flat_map in H1 as [m [Hm Hg0]]. apply in_flat_map. exists m. split; [assumption|apply pdg_sub; assumption].
Qed.
End RA.

(* ---------- ref_verify: from presented strings to the projection ---------- *)
Require Import SDJ.Restore2 SDJ.C03Proofs.

Section RV.
Variable H : string -> string.
Variable enc : list json -> string.
Variable dec : string -> option json.
Hypothesis hash_inj : forall x y, H x = H y -> x = y.
Hypothesis dec_enc : forall ps, dec (enc ps) = Some (JArr ps).

Lemma proj_ext R R' : forall t, (forall g, R g = R' g) -> proj H enc R t = proj H enc R' t.
Proof.
  induction t as [j | items IH | mems IH] using atree_ind'; intros Hx; [reflexivity| |].
  - cbn [T2h.proj]. f_equal. induction items as [|[k s] r IHr]; [reflexivity|]. inversion IH as [|? ? H1 H2]; subst. cbn in H1.
    cbn [flat_map]. rewrite (IHr H2). destruct k; [rewrite (H1 Hx)|rewrite (Hx (dig_item H enc salt s)), (H1 Hx)|]; reflexivity.
  - cbn [T2h.proj]. f_equal. induction mems as [|[n [k s]] r IHr]; [reflexivity|]. inversion IH as [|? ? H1 H2]; subst. cbn in H1.
    cbn [flat_map]. rewrite (IHr H2). destruct k; [rewrite (H1 Hx)|rewrite (Hx (dig_mem H enc salt n s)), (H1 Hx)|]; reflexivity.
Qed.

(* what a table built by rdecode contains *)
Lemma rdecode_cons s r T : rdecode H dec (s :: r) = Some T ->
  exists T0 e, rdecode H dec r = Some T0 /\ T = (H s, e) :: T0 /\
    (match e with
     | RMember name v => exists salt, dec s = Some (JArr [salt; JStr name; v])
     | RElement v => exists salt, dec s = Some (JArr [salt; v]) end).
Proof.
  intros Hd. unfold rdecode in Hd. cbn [fold_right] in Hd. fold (rdecode H dec r) in Hd.
  destruct (rdecode H dec r) as [T0|]; [|discriminate].
  destruct (dec s) as [j|]; [|discriminate].
  destruct j as [| | | |xs|]; try discriminate.
  destruct xs as [|a xs]; [discriminate|]. destruct xs as [|b xs]; [discriminate|].
  destruct xs as [|c xs].
  - exists T0, (RElement b). destruct b; injection Hd as <-; eauto.
  - destruct xs as [|d xs].
    + destruct b; try discriminate. injection Hd as <-. exists T0, (RMember s0 c). eauto.
    + destruct b; discriminate.
Qed.

Lemma rdecode_lookup : forall L T, rdecode H dec L = Some T ->
  forall g, (forall r, rlookup g T = Some r -> exists s, In s L /\ H s = g /\
                (match r with
                 | RMember name v => exists salt, dec s = Some (JArr [salt; JStr name; v])
                 | RElement v => exists salt, dec s = Some (JArr [salt; v]) end)) /\
            (rlookup g T = None -> forall s, In s L -> H s <> g).
Proof.
  induction L as [|s0 r IH]; intros T Hd g.
  - cbn in Hd. injection Hd as <-. split; [intros r0 Hr; discriminate|intros _ s []].
  - destruct (rdecode_cons s0 r T Hd) as (T0 & e & Hr0 & -> & He). specialize (IH T0 Hr0 g). destruct IH as [IH1 IH2].
    unfold rlookup. cbn [find fst snd]. destruct (String.eqb_spec (H s0) g) as [Hq|Hne].
    + split; [|discriminate]. intros r0 Hr. injection Hr as <-. exists s0. split; [left; reflexivity|]. split; assumption.
    + fold (rlookup g T0). split.
      * intros r0 Hr. destruct (IH1 r0 Hr) as (s & Hs & Hrest). exists s. split; [right; assumption|assumption].
      * intros Hn s [<-|Hs]; [assumption|apply IH2; assumption].
Qed.

Variable t : atree.
Hypothesis Hwf : wf H enc t.
Hypothesis Hnd : NoDup (alldigs H enc t).
Hypothesis Hndh : NoDup (hdigs H enc t).

Lemma rdecode_facts L T :
  (forall s, In s L -> In (H s) (alldigs H enc t) -> In (H s) (hdigs H enc t)) ->
  rdecode H dec L = Some T ->
  (forall g, RT T g = ownS H L g) /\ table_ok H enc T t.
Proof.
  intros Hdecoy Ed. pose proof (rdecode_lookup L T Ed) as Hlk. split.
  - intros g. unfold RT, ownS. destruct (Hlk g) as [H1 H2]. destruct (rlookup g T) as [r|] eqn:El.
    + destruct (H1 r eq_refl) as (s & Hs & Hq & _). symmetry. apply existsb_exists. exists s. split; [assumption|]. rewrite Hq. apply String.eqb_refl.
    + symmetry. apply not_true_is_false. intros Ht. apply existsb_exists in Ht as [s [Hs Hq]]. apply String.eqb_eq in Hq. exact (H2 eq_refl s Hs Hq).
  - intros g r Hg Hl. destruct (Hlk g) as [H1 _]. destruct (H1 r Hl) as (s & Hs & Hq & Hparts).
    assert (Hh : In g (hdigs H enc t)) by (rewrite <- Hq; apply Hdecoy; [assumption|rewrite Hq; assumption]).
    destruct (hdigs_node H enc g t Hh) as (salt & k & v & Hnode & Hgq).
    exists k, v. split; [assumption|].
    assert (Hs' : s = enc (parts_of salt k v)) by (apply hash_inj; congruence).
    rewrite Hs', dec_enc in Hparts. destruct r as [name v'|v']; destruct Hparts as [salt' Hp]; destruct k as [name0|]; cbn in Hp; try discriminate.
    + injection Hp as _ <- <-. reflexivity.
    + injection Hp as _ <-. reflexivity.
Qed.

(* C07 / C08: whenever the specification's algorithm accepts a list of presented strings for the payload of a
   conformant token, its result is the projection determined by the presented set - the same value the
   library model's restorer returns (C03Proofs) *)
Theorem ref_verify_sound L j :
  (forall s, In s L -> In (H s) (alldigs H enc t) -> In (H s) (hdigs H enc t)) ->
  ref_verify H dec (blind H enc t) L = Some j -> j = drop_alg (proj H enc (ownS H L) t).
Proof.
  intros Hdecoy Hv. unfold ref_verify in Hv. destruct (rdecode H dec L) as [T|] eqn:Ed; [|discriminate].
  destruct (rdecode_facts L T Hdecoy Ed) as [HRT Hok].
  destruct (rprocess 200 T (blind H enc t) []) as [[j' u]|] eqn:Er; [|discriminate].
  pose proof (rprocess_sound H enc T t Hwf Hnd Hndh Hok _ _ _ _ Er) as Hj. subst j'.
  rewrite (proj_ext (RT T) (ownS H L) t HRT) in Hv.
  unfold drop_alg. destruct (proj H enc (ownS H L) t); injection Hv as <-; reflexivity.
Qed.

(* ... and it does accept: every list of strings that decode as disclosures (own ones in any order and any
   subset, foreign ones), none hashing to a decoy, on a token within the nesting limit *)
Theorem ref_verify_complete L T :
  (forall s, In s L -> In (H s) (alldigs H enc t) -> In (H s) (hdigs H enc t)) ->
  rdecode H dec L = Some T -> aheight t <= 200 ->
  ref_verify H dec (blind H enc t) L = Some (drop_alg (proj H enc (ownS H L) t)).
Proof.
  intros Hdecoy Ed Hh. unfold ref_verify. rewrite Ed.
  destruct (rdecode_facts L T Hdecoy Ed) as [HRT Hok].
  destruct (rprocess_accepts H enc T t Hwf Hnd Hndh Hok 200 [] Hh) as (j' & u & Er & _); [intros g _ []|].
  rewrite Er. pose proof (rprocess_sound H enc T t Hwf Hnd Hndh Hok _ _ _ _ Er) as Hj. subst j'.
  rewrite (proj_ext (RT T) (ownS H L) t HRT).
  unfold drop_alg. destruct (proj H enc (ownS H L) t); reflexivity.
Qed.
End RV.
