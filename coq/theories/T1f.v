From Coq Require Import List String Ascii Bool Arith Lia Sorting.Sorted.
Import ListNotations.
Require Import SDJ.Json SDJ.Model2 SDJ.ATree SDJ.T2a SDJ.T2b SDJ.T2c SDJ.T2d SDJ.T2e SDJ.Issuer1 SDJ.T1a SDJ.T1b SDJ.T1c SDJ.T1d.
Local Open Scope string_scope.

Section T1f.
Variable H : string -> string.
Variable enc : list json -> string.
Variable parse_index : string -> option nat.
Variable parse_usize : string -> option nat.
Variable pos : string -> nat.
Notation add_sd := (T1a.add_sd pos).
Notation blind := (blind H enc).
Notation dig_mem := (dig_mem H enc).
Notation wf := (wf H enc).
Notation mem_ok := (mem_ok H enc).
Notation mark := (mark H enc parse_index parse_usize pos).

Lemma sd_of_app a b : sd_of (a ++ b) = (sd_of a ++ sd_of b)%list.
Proof. unfold sd_of. apply flat_map_app. Qed.

Lemma add_sd_keys g : forall mems, Forall sd_names_ok mems ->
  forall k, In k (map fst (add_sd g mems)) <-> k = "_sd" \/ In k (map fst mems).
Proof.
  induction mems as [|[n [mk s]] r IH]; intros Hn k; cbn [add_sd].
  - cbn. intuition congruence.
  - inversion Hn as [|? ? Hn1 Hn2]; subst. specialize (IH Hn2).
    destruct (String.compare "_sd" n) eqn:Ec.
    + apply String.compare_eq_iff in Ec. subst n. cbn. intuition congruence.
    + cbn. intuition congruence.
    + cbn. rewrite IH. intuition congruence.
Qed.

Lemma add_sd_sorted g : forall mems, StronglySorted slt (map fst mems) -> Forall sd_names_ok mems ->
  StronglySorted slt (map fst (add_sd g mems)).
Proof.
  induction mems as [|[n [mk s]] r IH]; intros Hs Hn; cbn [add_sd].
  - cbn. constructor; constructor.
  - cbn [map fst] in Hs. apply StronglySorted_inv in Hs as [Hs Hf]. inversion Hn as [|? ? Hn1 Hn2]; subst.
    destruct (String.compare "_sd" n) eqn:Ec.
    + cbn. constructor; assumption.
    + cbn. constructor; [constructor; assumption|]. constructor; [exact Ec|].
      rewrite Forall_forall in Hf |- *. intros k Hk. exact (slt_trans _ _ _ Ec (Hf _ Hk)).
    + cbn. constructor; [apply IH; assumption|].
      apply Forall_forall. intros k Hk. apply (add_sd_keys g r Hn2) in Hk as [->|Hk].
      * rewrite String.compare_antisym in Ec. unfold slt. destruct (String.compare n "_sd"); cbn in Ec; congruence.
      * rewrite Forall_forall in Hf. auto.
Qed.

Lemma add_sd_sd_of g : forall mems, Forall sd_names_ok mems ->
  forall x, In x (sd_of mems) \/ x = g -> In x (sd_of (add_sd g mems)).
Proof.
  induction mems as [|[n [mk s]] r IH]; intros Hn x Hx; cbn [add_sd].
  - destruct Hx as [[] | ->]. left. reflexivity.
  - inversion Hn as [|? ? Hn1 Hn2]; subst. unfold sd_names_ok in Hn1. cbn in Hn1.
    destruct (String.compare "_sd" n) eqn:Ec.
    + apply String.compare_eq_iff in Ec. subst n. destruct mk as [| |l]; try (exfalso; apply Hn1; reflexivity).
      unfold sd_of in *. cbn [flat_map fst snd] in *. rewrite !in_app_iff in *. rewrite in_insert_at.
      destruct Hx as [[Hx|Hx] | ->]; auto.
    + unfold sd_of in *. cbn in *. destruct Hx as [Hx | ->]; [right; assumption|left; reflexivity].
    + unfold sd_of in *. cbn [flat_map] in *. rewrite in_app_iff in *. destruct Hx as [[Hx|Hx] | ->].
      * left. assumption.
      * right. apply IH; auto.
      * right. apply IH; auto.
Qed.

Lemma add_sd_names g : forall mems, Forall sd_names_ok mems -> Forall sd_names_ok (add_sd g mems).
Proof.
  induction mems as [|[n [mk s]] r IH]; intros Hn; cbn [add_sd].
  - constructor; [reflexivity|constructor].
  - inversion Hn as [|? ? Hn1 Hn2]; subst. destruct (String.compare "_sd" n) eqn:Ec.
    + constructor; [|assumption]. unfold sd_names_ok in *. cbn in *. destruct mk; assumption.
    + constructor; [reflexivity|assumption].
    + constructor; [assumption|auto].
Qed.

(* members of add_sd: either old members (with the _sd list extended) or the new _sd member *)
Lemma add_sd_members g : forall mems m, In m (add_sd g mems) ->
  In m mems \/ (exists l, m = ("_sd", (MSd l, ALeaf JNull))) \/ (exists l s, In ("_sd", (MSd l, s)) mems /\ m = ("_sd", (MSd (insert_at (pos g) g l), s))) \/
  (exists mk s, In ("_sd", (mk, s)) mems /\ m = ("_sd", (mk, s))).
Proof.
  induction mems as [|[n [mk s]] r IH]; intros m Hm; cbn [add_sd] in Hm.
  - destruct Hm as [<-|[]]. right. left. eauto.
  - destruct (String.compare "_sd" n) eqn:Ec.
    + apply String.compare_eq_iff in Ec. subst n. destruct Hm as [<-|Hm]; [|left; right; assumption].
      destruct mk as [| |l].
      * left. left. reflexivity.
      * left. left. reflexivity.
      * right. right. left. exists l, s. split; [left; reflexivity|reflexivity].
    + destruct Hm as [<-|Hm]; [right; left; eauto|left; assumption].
    + destruct Hm as [<-|Hm]; [left; left; reflexivity|].
      destruct (IH m Hm) as [H1|[H2|[(l & s0 & Hin & ->)|(mk0 & s0 & Hin & ->)]]].
      * left. right. assumption.
      * right. left. assumption.
      * right. right. left. exists l, s0. split; [right; assumption|reflexivity].
      * right. right. right. exists mk0, s0. split; [right; assumption|reflexivity].
Qed.

Lemma mem_ok_mono A B m : (forall x, In x (sd_of A) -> In x (sd_of B)) -> mem_ok A m -> mem_ok B m.
Proof. destruct m as [n [mk s]]. unfold T2c.mem_ok. intros Hsub [H1 H2]. split; [assumption|]. destruct mk; intuition. Qed.

Lemma Forall_list_set {A} (P : A -> Prop) i x l : Forall P l -> P x -> Forall P (list_set i x l).
Proof. revert i. induction l as [|y r IH]; intros [|i] Hl Hx; cbn; inversion Hl; subst; constructor; auto. Qed.

Lemma sd_of_swap pre post n k1 s1 k2 s2 :
  (match k1 with MSd _ => False | _ => True end) -> (match k2 with MSd _ => False | _ => True end) ->
  sd_of (pre ++ (n, (k1, s1)) :: post) = sd_of (pre ++ (n, (k2, s2)) :: post).
Proof. intros H1 H2. rewrite !sd_of_app. f_equal. unfold sd_of. cbn. destruct k1, k2; tauto || reflexivity. Qed.

Theorem mark_wf key salt : forall toks t t', wf t -> mark toks key salt t = Some t' -> wf t'.
Proof.
  induction toks as [|tok rest IH]; intros t t' Hw Hm.
  - destruct t as [j | items | mems]; cbn [T1a.mark] in Hm; [discriminate| |].
    + destruct (parse_usize key) as [i|]; [|discriminate].
      unfold upd_item in Hm. destruct (nth_error items i) as [[k s]|] eqn:En; [|discriminate].
      destruct k as [| |]; cbn in Hm; try discriminate. injection Hm as <-.
      inversion Hw as [| ? Hall Hiok |]; subst. apply nth_error_In in En.
      constructor; apply Forall_list_set; auto.
      * rewrite Forall_forall in Hall. apply (Hall _ En).
      * exact I.
    + destruct (upd_mem key _ mems) as [mems'|] eqn:Eu; [|discriminate].
      apply upd_mem_inv in Eu as (pre & x & post & x' & Hsplit & -> & Hf & Hni).
      destruct x as [[| |] s]; try discriminate. injection Hf as <-.
      rewrite Hsplit, find_mid in Hm by assumption. injection Hm as <-.
      pose proof (wf_obj_names H enc parse_index parse_usize pos _ Hw) as Hn0.
      inversion Hw as [| | ? Hs Hall Hok]; subst mems0.
      set (mems' := (pre ++ (key, (MHid salt, s)) :: post)%list).
      set (g := dig_mem salt key s).
      assert (Hkeys : map fst mems' = map fst mems) by (unfold mems'; rewrite Hsplit, !map_app; reflexivity).
      assert (Hs' : StronglySorted slt (map fst mems')) by (rewrite Hkeys; assumption).
      assert (Hkey : key <> "..." /\ key <> "_sd").
      { rewrite Forall_forall in Hok. specialize (Hok (key, (MPlain, s))). rewrite Hsplit in Hok.
        specialize (Hok ltac:(apply in_or_app; right; left; reflexivity)). cbn in Hok. tauto. }
      assert (Hn' : Forall sd_names_ok mems').
      { rewrite Hsplit in Hn0. unfold mems'. apply Forall_app in Hn0 as [Hn1 Hn2]. apply Forall_app. split; [assumption|].
        inversion Hn2; subst. constructor; [|assumption]. unfold sd_names_ok. cbn. tauto. }
      assert (Hsd : sd_of mems' = sd_of mems) by (unfold mems'; rewrite Hsplit; apply sd_of_swap; exact I).
      assert (Hsub : forall x, In x (sd_of mems) -> In x (sd_of (add_sd g mems'))).
      { intros x Hx. apply add_sd_sd_of; [assumption|]. left. rewrite Hsd. assumption. }
      assert (Hold : forall m, In m mems' -> wf (snd (snd m)) /\ mem_ok (add_sd g mems') m).
      { intros m Hm. unfold mems' in Hm. apply in_app_or in Hm as [Hm|[<-|Hm]].
        - rewrite Forall_forall in Hall, Hok. assert (Hin : In m mems) by (rewrite Hsplit; apply in_or_app; left; assumption).
          split; [apply (Hall _ Hin)|]. eapply mem_ok_mono; [exact Hsub|apply (Hok _ Hin)].
        - rewrite Forall_forall in Hall. split.
          + apply (Hall (key, (MPlain, s))). rewrite Hsplit. apply in_or_app. right. left. reflexivity.
          + cbn. split; [tauto|]. split; [tauto|]. apply add_sd_sd_of; [assumption|]. right. reflexivity.
        - rewrite Forall_forall in Hall, Hok. assert (Hin : In m mems) by (rewrite Hsplit; apply in_or_app; right; right; assumption).
          split; [apply (Hall _ Hin)|]. eapply mem_ok_mono; [exact Hsub|apply (Hok _ Hin)]. }
      assert (Hnew : forall m, In m (add_sd g mems') -> wf (snd (snd m)) /\ mem_ok (add_sd g mems') m).
      { intros m Hm. destruct (add_sd_members g mems' m Hm) as [H1|[(l & ->)|[(l & s0 & Hin & ->)|(mk0 & s0 & Hin & ->)]]].
        - apply Hold. assumption.
        - split; [constructor; exact I|]. cbn. split; [discriminate|]. split; reflexivity.
        - destruct (Hold _ Hin) as [Hw0 Hok0]. split; [assumption|]. cbn in Hok0 |- *. tauto.
        - apply Hold. assumption. }
      constructor.
      * apply add_sd_sorted; assumption.
      * apply Forall_forall. intros m Hm. apply (Hnew m Hm).
      * apply Forall_forall. intros m Hm. apply (Hnew m Hm).
  - destruct t as [j | items | mems]; cbn [T1a.mark] in Hm; [discriminate| |].
    + destruct (parse_index tok) as [i|]; [|discriminate].
      unfold upd_item in Hm. destruct (nth_error items i) as [[k s]|] eqn:En; [|discriminate].
      destruct k as [| |]; cbn in Hm; try discriminate.
      destruct (mark rest key salt s) as [s'|] eqn:Ems; cbn in Hm; [|discriminate]. injection Hm as <-.
      inversion Hw as [| ? Hall Hiok |]; subst. apply nth_error_In in En.
      constructor; apply Forall_list_set; auto.
      * rewrite Forall_forall in Hall. apply (IH _ _ (Hall _ En) Ems).
      * exact I.
    + destruct (upd_mem tok _ mems) as [mems'|] eqn:Eu; cbn in Hm; [|discriminate]. injection Hm as <-.
      apply upd_mem_inv in Eu as (pre & x & post & x' & Hsplit & -> & Hf & Hni).
      destruct x as [[| |] s]; try discriminate.
      destruct (mark rest key salt s) as [s'|] eqn:Ems; cbn in Hf; [|discriminate]. injection Hf as <-.
      inversion Hw as [| | ? Hs Hall Hok]; subst mems0.
      assert (Hsd : sd_of (pre ++ (tok, (MPlain, s')) :: post) = sd_of mems) by (rewrite Hsplit; apply sd_of_swap; exact I).
      rewrite Forall_forall in Hall, Hok.
      assert (Hin0 : In (tok, (MPlain, s)) mems) by (rewrite Hsplit; apply in_or_app; right; left; reflexivity).
      constructor.
      * rewrite Hsplit, map_app in Hs. rewrite map_app. exact Hs.
      * apply Forall_forall. intros m Hm. apply in_app_or in Hm as [Hm|[<-|Hm]].
        -- apply Hall. rewrite Hsplit. apply in_or_app. left. assumption.
        -- cbn. apply (IH _ _ (Hall _ Hin0) Ems).
        -- apply Hall. rewrite Hsplit. apply in_or_app. right. right. assumption.
      * apply Forall_forall. intros m Hm.
        assert (Hmo : forall m0, In m0 mems -> mem_ok (pre ++ (tok, (MPlain, s')) :: post) m0).
        { intros m0 Hm0. eapply mem_ok_mono; [|apply (Hok _ Hm0)]. intros x Hx. rewrite Hsd. assumption. }
        apply in_app_or in Hm as [Hm|[<-|Hm]].
        -- apply Hmo. rewrite Hsplit. apply in_or_app. left. assumption.
        -- specialize (Hmo _ Hin0). cbn in Hmo |- *. exact Hmo.
        -- apply Hmo. rewrite Hsplit. apply in_or_app. right. right. assumption.
Qed.
End T1f.
