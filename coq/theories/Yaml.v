(* Model of parser.rs (as repaired): the !sd tag collection walk over the value tree serde_yaml returns,
   and the structural YAML -> JSON conversion. YAML text -> value tree is serde_yaml (an oracle): the model
   starts from the tree. *)
From Coq Require Import List String Ascii Bool Arith.
Import ListNotations.
Require Import SDJ.Json SDJ.Wire SDJ.Model2.
Local Open Scope string_scope.

Inductive yaml :=
| YNull | YBool (b : bool) | YNum (lit : string) | YStr (s : string)
| YSeq (xs : list yaml) | YMap (kvs : list (yaml * yaml)) | YTag (tag : string) (v : yaml).


(* "/a/b/0" from path segments (keys already escaped as JSON pointer tokens, repair F17c); "" for the root *)
Fixpoint render_segs (segs : list string) : string :=
  match segs with [] => "" | s :: r => "/" ++ s ++ render_segs r end.

Definition sd_tag : string := "!sd".

(* the member name the YAML -> JSON conversion gives a scalar key that is not a string: its re-serialised text
   (serde_yaml prints the number, true/false, null; serde_json reads the key as a string) *)
Fixpoint key_name (k : yaml) : option string :=
  match k with
  | YNum l => Some l
  | YBool true => Some "true" | YBool false => Some "false"
  | YNull => Some "null"
  (* repair F28: a key that carries a tag other than !sd keeps the name of the scalar under the tag (the conversion
     drops tags of keys); tags below such a key are collected as below any other key *)
  | YTag t v => if String.eqb t sd_tag then None else match v with YStr s => Some s | _ => key_name v end
  | _ => None end.

(* collect_tagged_keys: returns the tree with the !sd tags of keys and string items removed, and the
   paths of the tagged nodes - nested ones before the node that encloses them *)
Fixpoint collect (path : list string) (y : yaml) : res (yaml * list string) :=
  match y with
  | YMap kvs =>
      do r <- (fix go (l : list (yaml * yaml)) : res (list (yaml * yaml) * list string) :=
                 match l with
                 | [] => Ok ([], [])
                 | (k, v) :: rest =>
                     match k with
                     | YTag t kv =>
                         if String.eqb t sd_tag then
                           match kv with
                           | YStr ks =>
                               do (v', ps) <- collect (path ++ [esc_tok ks]) v;
                               do (rest', ps') <- go rest;
                               Ok ((YStr ks, v') :: rest', (ps ++ [render_segs (path ++ [esc_tok ks])] ++ ps')%list)
                           | _ => Err end
                         else
                           match key_name k with
                           | Some n =>
                               do (v', ps) <- collect (path ++ [esc_tok n]) v;
                               do (rest', ps') <- go rest;
                               Ok ((k, v') :: rest', (ps ++ ps')%list)
                           | None => do (rest', ps') <- go rest; Ok ((k, v) :: rest', ps') end
                     | YStr ks =>
                         do (v', ps) <- collect (path ++ [esc_tok ks]) v;
                         do (rest', ps') <- go rest;
                         Ok ((k, v') :: rest', (ps ++ ps')%list)
                     | _ =>
                         (* repair F25: tags below a scalar key that is not a string are collected as well, under the
                            member name the conversion gives that key; other keys have no JSON member name *)
                         match key_name k with
                         | Some n =>
                             do (v', ps) <- collect (path ++ [esc_tok n]) v;
                             do (rest', ps') <- go rest;
                             Ok ((k, v') :: rest', (ps ++ ps')%list)
                         | None => do (rest', ps') <- go rest; Ok ((k, v) :: rest', ps') end
                     end
                 end) kvs;
      Ok (YMap (fst r), snd r)
  | YSeq xs =>
      do r <- (fix go (i : nat) (l : list yaml) : res (list yaml * list string) :=
                 match l with
                 | [] => Ok ([], [])
                 | x :: rest =>
                     do (x', ps) <- collect (path ++ [show_nat i]) x;
                     do x'' <- match x' with
                               | YTag t inner => if String.eqb t sd_tag
                                                 then match inner with YStr s => Ok (YStr s) | _ => Err end
                                                 else Ok x'
                               | _ => Ok x' end;
                     do (rest', ps') <- go (S i) rest;
                     Ok (x'' :: rest', (ps ++ ps')%list)
                 end) 0 xs;
      Ok (YSeq (fst r), snd r)
  | YTag t _ => if String.eqb t sd_tag then Ok (y, [render_segs path]) else Ok (y, [])
  | _ => Ok (y, [])
  end.

(* a mapping with exactly one entry whose key carries a tag is what serde_yaml writes (and reads) as a tagged VALUE: the
   conversion of such a mapping fails, while the tags of keys of larger mappings are dropped *)
Definition singleton_tagged_key (kvs : list (yaml * yaml)) : bool :=
  match kvs with [(YTag _ _, _)] => true | _ => false end.

(* serde_yaml::to_string followed by from_str::<serde_json::Value>: structural, string keys only, no tags *)
Fixpoint to_json (y : yaml) : res json :=
  match y with
  | YNull => Ok JNull
  | YBool b => Ok (JBool b)
  | YNum l => Ok (JNum l)
  | YStr s => Ok (JStr s)
  | YSeq xs => do l <- (fix go (l : list yaml) : res (list json) :=
                          match l with [] => Ok [] | x :: r => do j <- to_json x; do r' <- go r; Ok (j :: r') end) xs;
               Ok (JArr l)
  | YMap kvs => if singleton_tagged_key kvs then Err else
                do l <- (fix go (l : list (yaml * yaml)) : res (list (string * json)) :=
                           match l with
                           | [] => Ok []
                           | (YStr k, v) :: r => do j <- to_json v; do r' <- go r; Ok ((k, j) :: r')
                           | (k, v) :: r => match key_name k with
                                            | Some n => do j <- to_json v; do r' <- go r; Ok ((n, j) :: r')
                                            | None => Err end
                           end) kvs;
                Ok (JObj (fold_left (fun acc kv => obj_insert (fst kv) (snd kv) acc) l []))
  | YTag _ _ => Err
  end.

(* repairs F26, F27: two keys of one mapping that name the same member of the JSON claims - the same string once the !sd
   tag is removed (serde_yaml itself refuses equal keys, so one of the two carries the tag), or a scalar and the string
   that spells it - are an error, as the same document without its tags is. The walk
   reports it where it rebuilds the mapping; whatever the walk does not visit (below a key that is no scalar, inside a
   tagged value) makes the conversion fail anyway, so the outcome is that of a check over the whole tree. *)
Definition stripped_name (k : yaml) : option string :=
  match k with
  | YStr s => Some s
  | YTag t (YStr s) => if String.eqb t sd_tag then Some s else None
  | _ => None end.

(* the member of the JSON claims a key names (repair F27: a number, boolean or null names the member its text spells,
   so `1` and "1" collide as well) *)
Definition member_name (k : yaml) : option string :=
  match stripped_name k with Some s => Some s | None => key_name k end.

Fixpoint has_dup (l : list string) : bool :=
  match l with [] => false | x :: r => existsb (String.eqb x) r || has_dup r end.

Fixpoint clash (y : yaml) : bool :=
  match y with
  | YMap kvs =>
      has_dup (flat_map (fun kv : yaml * yaml => let '(k, _) := kv in match member_name k with Some s => [s] | None => [] end) kvs)
      || existsb (fun kv : yaml * yaml => let '(_, v) := kv in clash v) kvs
  | YSeq xs => existsb clash xs
  | YTag _ v => clash v
  | _ => false end.

(* parse_yaml on the value tree *)
Definition parse_yaml_tree (y : yaml) : res (json * list string) :=
  if clash y then Err else
  do (y', ps) <- collect [] y; do j <- to_json y'; Ok (j, ps).
