(* C14: issuing is total. *)
From Coq Require Import List String Ascii Bool Arith ZArith Lia.
Import ListNotations.
Require Import SDJ.Json SDJ.Wire SDJ.Model2 SDJ.Out SDJ.Split SDJ.Issuer1 SDJ.Issuer2.
Local Open Scope string_scope.

(* Issuer::encode never panics, for any claims value, any path strings, any decoy maximum (also <= 0),
   whatever the random draws are - provided signing does not panic *)
Definition is_obj (j : json) : Prop := match j with JObj _ => True | _ => False end.

(* the root of the claims stays an object along the fold *)
Lemma update_at_obj {A} (f : json -> res (json * A)) : (forall j j' a, is_obj j -> f j = Ok (j', a) -> is_obj j') ->
  forall toks j j' a, is_obj j -> update_at toks f j = Ok (j', a) -> is_obj j'.
Proof.
  intros Hf toks. unfold update_at. destruct toks as [|tok rest]; intros j j' a Ho Hu; cbn in Hu; [eauto|].
  destruct j; try contradiction. destruct (obj_get tok kvs); [|discriminate].
  destruct (Issuer1.update_at parse_index rest f j) as [[v' a']|]; cbn in Hu; [|discriminate]. injection Hu as <- _. exact I.
Qed.

Lemma disclose_here_obj E key salt j j' d : is_obj j -> disclose_here E key salt j = Ok (j', d) -> is_obj j'.
Proof.
  intros Ho Hd. unfold disclose_here in Hd. destruct j; try contradiction. cbn in Hd. destruct (obj_get key kvs); [|discriminate].
  destruct (_ || _); [discriminate|].
  destruct (obj_get "_sd" (obj_remove key kvs)) as [[]|]; try discriminate; injection Hd as <- _; exact I.
Qed.

Lemma build_disclosure_obj E j p salt j' d : is_obj j -> build_disclosure E j p salt = Ok (j', d) -> is_obj j'.
Proof.
  unfold build_disclosure. destruct (parse_path p) as [[toks key]|]; [|discriminate]. intros Ho Hu.
  eapply (update_at_obj (disclose_here E key salt)); eauto. intros; eapply disclose_here_obj; eauto.
Qed.

Lemma issue_fold_obj E : forall paths salts j j' ds, is_obj j -> issue_fold E j paths salts = Ok (j', ds) -> is_obj j'.
Proof.
  induction paths as [|p ps IH]; intros salts j j' ds Ho Hf; cbn in Hf.
  - injection Hf as <- _. assumption.
  - destruct salts as [|s ss]; [discriminate|].
    destruct (build_disclosure E j p s) as [[c1 d]|] eqn:Eb; cbn in Hf; [|discriminate].
    destruct (issue_fold E c1 ps ss) as [[c2 ds2]|] eqn:Ef; cbn in Hf; [|discriminate]. injection Hf as <- _.
    eapply IH; [|exact Ef]. eapply build_disclosure_obj; eauto.
Qed.

Theorem issue_no_panic E kvs0 paths max_decoys cnf header :
  (forall h p, ie_sign E h p <> Panic) -> issue E (JObj kvs0) paths max_decoys cnf header <> Panic.
Proof.
  intros Hs. unfold issue. cbn [is_object]. unfold issue_obj. destruct (has_reserved true (JObj kvs0)); [discriminate|].
  destruct (match cnf with Some _ => jhas_ "cnf" (JObj kvs0) | None => false end); [discriminate|].
  destruct (issue_fold E (JObj kvs0) paths (ie_salts E)) as [[c1 ds]|] eqn:Ef; cbn [of_res obind]; [|discriminate].
  pose proof (issue_fold_obj E paths (ie_salts E) (JObj kvs0) c1 ds I Ef) as Ho.
  destruct c1; try contradiction.
  set (x := match max_decoys with Some m => if (0 <? m)%Z then of_res (add_decoys kvs (ie_decoys E)) else Val kvs | None => Val kvs end).
  assert (Hx : x <> Panic).
  { subst x. destruct max_decoys as [m|]; [|discriminate]. destruct (0 <? m)%Z; [|discriminate].
    destruct (add_decoys kvs (ie_decoys E)); discriminate. }
  destruct x as [kvs1| |]; cbn [obind]; [|discriminate|congruence].
  match goal with |- context [ie_sign E ?h ?p] => specialize (Hs h p); destruct (ie_sign E h p) end; cbn [obind]; congruence.
Qed.

(* paths that cannot be parsed are errors *)
Lemma split_path_no_slash p : contains slash p = false -> split_path p = None.
Proof. intros Hc. unfold split_path. rewrite split_no_sep by assumption. reflexivity. Qed.

Lemma build_disclosure_no_slash E claims p salt : contains slash p = false -> build_disclosure E claims p salt = Err.
Proof. intros Hc. unfold build_disclosure, parse_path. rewrite split_path_no_slash by assumption. destruct (reserved_token p); reflexivity. Qed.

(* an error in any position of the path list makes the whole fold fail *)
Lemma issue_fold_err E : forall pre claims p post salts c ds s,
  issue_fold E claims pre salts = Ok (c, ds) ->
  nth_error salts (List.length pre) = Some s ->
  build_disclosure E c p s = Err ->
  issue_fold E claims (pre ++ p :: post) salts = Err.
Proof.
  induction pre as [|q pre IH]; intros claims p post salts c ds s Hf Hs He.
  - cbn in Hf. injection Hf as <- <-. destruct salts as [|s0 ss]; [discriminate|]. cbn in Hs. injection Hs as ->.
    cbn. rewrite He. reflexivity.
  - destruct salts as [|s0 ss]; [discriminate|]. cbn in Hf, Hs |- *.
    destruct (build_disclosure E claims q s0) as [[c1 d]|]; cbn in Hf |- *; [|discriminate].
    destruct (issue_fold E c1 pre ss) as [[c2 ds2]|] eqn:E2; cbn in Hf; [|discriminate]. injection Hf as <- <-.
    rewrite (IH c1 p post ss c2 ds2 s E2 Hs He). reflexivity.
Qed.

(* unknown member / index out of range / non-numeric index at the last step *)
Lemma disclose_here_unknown_member E key salt kvs : obj_get key kvs = None -> disclose_here E key salt (JObj kvs) = Err.
Proof. intros Hn. unfold disclose_here. cbn. rewrite Hn. reflexivity. Qed.
Lemma disclose_here_out_of_range E key salt xs i : parse_usize key = Some i -> List.length xs <= i -> disclose_here E key salt (JArr xs) = Err.
Proof. intros Hp Hl. unfold disclose_here. cbn. rewrite Hp. apply nth_error_None in Hl. rewrite Hl. reflexivity. Qed.
Lemma disclose_here_non_numeric E key salt xs : parse_usize key = None -> disclose_here E key salt (JArr xs) = Err.
Proof. intros Hp. unfold disclose_here. cbn. rewrite Hp. reflexivity. Qed.
Lemma disclose_here_scalar E key salt j : (forall xs, j <> JArr xs) -> (forall kvs, j <> JObj kvs) -> disclose_here E key salt j = Err.
Proof. intros Ha Ho. unfold disclose_here. destruct j; try reflexivity; exfalso; [eapply Ha|eapply Ho]; reflexivity. Qed.

(* repair F19: claims that use a reserved name (_sd or ... anywhere, _sd_alg at the top level) are refused *)
Theorem issue_reserved_refused E claims paths max_decoys cnf header :
  has_reserved true claims = true -> issue E claims paths max_decoys cnf header = Fail.
Proof. intros Hr. unfold issue. destruct (is_object claims); [|reflexivity]. unfold issue_obj. rewrite Hr. reflexivity. Qed.

(* repair F29: claims that are not a JSON object are refused - with any paths, decoys, key binding, header *)
Theorem issue_non_object_refused E claims paths max_decoys cnf header :
  (forall kvs, claims <> JObj kvs) -> issue E claims paths max_decoys cnf header = Fail.
Proof. intros Hn. unfold issue. destruct claims; try reflexivity. exfalso. eapply Hn. reflexivity. Qed.

(* ... so that issuing never panics, whatever the claims are *)
Theorem issue_no_panic_any E claims paths max_decoys cnf header :
  (forall h p, ie_sign E h p <> Panic) -> issue E claims paths max_decoys cnf header <> Panic.
Proof.
  intros Hs. destruct claims; try (unfold issue; cbn [is_object]; discriminate).
  apply issue_no_panic. exact Hs.
Qed.

(* repair F20: paths that lead into digest bookkeeping *)
Lemma build_disclosure_reserved_token E claims p salt : reserved_token p = true -> build_disclosure E claims p salt = Err.
Proof. intros Hr. unfold build_disclosure, parse_path. rewrite Hr. reflexivity. Qed.

Lemma disclose_here_placeholder E key salt xs i v :
  parse_usize key = Some i -> nth_error xs i = Some v -> has_dots v = true -> disclose_here E key salt (JArr xs) = Err.
Proof. intros Hp Hn Hd. unfold disclose_here. cbn. rewrite Hp, Hn, Hd. reflexivity. Qed.

(* repair F21: a cnf claim of the caller together with required key binding is refused *)
Theorem issue_own_cnf_refused E claims paths max_decoys k header :
  jhas_ "cnf" claims = true -> issue E claims paths max_decoys (Some k) header = Fail.
Proof. intros Hc. unfold issue. destruct (is_object claims); [|reflexivity]. unfold issue_obj. destruct (has_reserved true claims); [reflexivity|]. rewrite Hc. reflexivity. Qed.
