From Coq Require Import List String Ascii Bool Arith Lia Sorting.Sorted.
Import ListNotations.
Require Import SDJ.Json SDJ.Model2 SDJ.ATree SDJ.T2a SDJ.T2b SDJ.T2c.
Local Open Scope string_scope.

(* ---------- list helpers ---------- *)
Lemma NoDup_app_disj {A} (a b : list A) g : NoDup (a ++ b) -> In g a -> ~ In g b.
Proof.
  induction a as [|x r IH]; cbn; [intros _ []|]. intros Hnd [->|Hin] Hb.
  - inversion Hnd as [|? ? Hni _]; subst. apply Hni. apply in_or_app. right. assumption.
  - inversion Hnd; subst. apply (IH ltac:(assumption) Hin Hb).
Qed.
Lemma NoDup_app_l {A} (a b : list A) : NoDup (a ++ b) -> NoDup a.
Proof. induction a as [|x r IH]; cbn; intros Hnd; [constructor|]. inversion Hnd as [|? ? Hni Hnd']; subst.
  constructor; [|auto]. intros Hin. apply Hni. apply in_or_app. left. assumption. Qed.
Lemma NoDup_app_r {A} (a b : list A) : NoDup (a ++ b) -> NoDup b.
Proof. induction a as [|x r IH]; cbn; intros Hnd; [assumption|]. inversion Hnd; subst. auto. Qed.

Lemma NoDup_app_intro {A} (a b : list A) : NoDup a -> NoDup b -> (forall g, In g a -> In g b -> False) -> NoDup (a ++ b).
Proof.
  induction a as [|x r IH]; intros Ha Hb Hd; [assumption|]. inversion Ha as [|? ? Hni Hr]; subst. cbn. constructor.
  - intros Hin. apply in_app_or in Hin as [|Hin]; [contradiction|]. apply (Hd x); [left; reflexivity|assumption].
  - apply IH; auto. intros g H1 H2. apply (Hd g); [right; assumption|assumption].
Qed.

Lemma NoDup_flat_map_other {A B} (f : A -> list B) l1 x l2 g :
  NoDup (flat_map f (l1 ++ x :: l2)) -> In g (f x) -> forall y, In y (l1 ++ l2) -> ~ In g (f y).
Proof.
  intros Hnd Hg y Hy Hgy. rewrite flat_map_app in Hnd. cbn [flat_map] in Hnd.
  apply in_app_or in Hy as [Hy|Hy].
  - apply (NoDup_app_disj _ _ g Hnd).
    + apply in_flat_map. exists y. split; assumption.
    + apply in_or_app. left. assumption.
  - apply NoDup_app_r in Hnd. apply (NoDup_app_disj _ _ g Hnd Hg). apply in_flat_map. exists y. split; assumption.
Qed.
Lemma NoDup_flat_map_in {A B} (f : A -> list B) l x : NoDup (flat_map f l) -> In x l -> NoDup (f x).
Proof.
  intros Hnd Hin. apply in_split in Hin as (l1 & l2 & ->). rewrite flat_map_app in Hnd. cbn [flat_map] in Hnd.
  apply NoDup_app_r in Hnd. apply NoDup_app_l in Hnd. assumption.
Qed.

(* ---------- walks with exactly one changed element ---------- *)
Lemma walk_split {A D} (f : A -> res (A * list (dpath_ D) * bool)) l1 x l2 x' ps b :
  (forall y, In y l1 -> f y = Ok (y, [], false)) -> f x = Ok (x', ps, b) ->
  (forall y, In y l2 -> f y = Ok (y, [], false)) ->
  walk f (l1 ++ x :: l2) = Ok ((l1 ++ x' :: l2)%list, ps, b).
Proof.
  intros H1 Hx H2. rewrite walk_app. rewrite (walk_id f l1 H1). cbn [bind walk]. rewrite Hx. cbn [bind].
  rewrite (walk_id f l2 H2). cbn. rewrite app_nil_r, orb_false_r. reflexivity.
Qed.

Lemma walki_split {A D} (f : nat -> A -> res (A * list (dpath_ D) * bool)) l1 x l2 x' ps b : forall i,
  (forall j y, In y l1 -> f j y = Ok (y, [], false)) -> f (i + List.length l1) x = Ok (x', ps, b) ->
  (forall j y, In y l2 -> f j y = Ok (y, [], false)) ->
  walki f i (l1 ++ x :: l2) = Ok ((l1 ++ x' :: l2)%list, ps, b).
Proof.
  induction l1 as [|y r IH]; intros i H1 Hx H2.
  - cbn in *. rewrite Nat.add_0_r in Hx. rewrite Hx. cbn. rewrite (walki_id f l2 (S i) H2). cbn.
    rewrite app_nil_r, orb_false_r. reflexivity.
  - cbn [app walki]. rewrite H1 by (left; reflexivity). cbn [bind].
    rewrite (IH (S i)); [reflexivity| | |assumption].
    + intros; apply H1; right; assumption.
    + cbn in Hx. rewrite <- Hx. f_equal. lia.
Qed.

Lemma flat_map_ext_in' {A B} (f g : A -> list B) l : (forall x, In x l -> f x = g x) -> flat_map f l = flat_map g l.
Proof. induction l as [|x r IH]; cbn; intros Hx; [reflexivity|]. rewrite Hx by (left; reflexivity). f_equal. apply IH. intros; apply Hx; right; assumption. Qed.
