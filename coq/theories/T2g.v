From Coq Require Import List String Ascii Bool Arith Lia Sorting.Sorted.
Import ListNotations.
Require Import SDJ.Json SDJ.Model2 SDJ.ATree SDJ.T2a SDJ.T2b SDJ.T2c SDJ.T2d SDJ.T2e SDJ.T2f.
Local Open Scope string_scope.

Section G.
Variable H : string -> string.
Variable enc : list json -> string.
Variable show_nat : nat -> string.
Notation blind := (blind H enc).
Notation view := (view H enc).
Notation dig_item := (dig_item H enc).
Notation dig_mem := (dig_mem H enc).
Notation hdigs := (hdigs H enc).
Notation alldigs := (alldigs H enc).
Notation wf := (wf H enc).
Notation vitem R := (ATree.view_item H enc (view R) R).
Notation vmem R := (ATree.view_mem H enc (view R) R).
Notation restore1 := (restore1 show_nat).
Notation hdigs_item := (hdigs_item H enc).
Notation hdigs_mem := (hdigs_mem H enc).
Notation adigs_item := (adigs_item H enc alldigs).
Notation adigs_mem := (adigs_mem alldigs).
Notation Exposed := (Exposed H enc).
Notation NodePath := (NodePath H enc show_nat).
Notation closedR := (closedR H enc).

Lemma Radd_other R g g' : g' <> g -> Radd R g g' = R g'.
Proof. intros Hn. unfold Radd. destruct (String.eqb_spec g' g); [contradiction|reflexivity]. Qed.
Lemma Radd_same R g : Radd R g g = true.
Proof. unfold Radd. rewrite String.eqb_refl. reflexivity. Qed.
Lemma Radd_mono R g g' : R g' = true -> Radd R g g' = true.
Proof. unfold Radd. intros ->. apply orb_true_r. Qed.

Lemma blind_no_occ n d path s :
  wf s -> ~ In (d_digest d) (alldigs s) -> aheight s <= n ->
  restore1 n d path (blind s) = Ok (blind s, [], false).
Proof.
  intros Hw Hni Hh. rewrite <- (view_R0_blind H enc). apply restore1_no_occ.
  - apply sdwf_view. assumption.
  - destruct (occurs (d_digest d) (view R0 s)) eqn:E; [|reflexivity]. exfalso. apply Hni. eapply occurs_view; eauto.
  - pose proof (height_view H enc R0 s Hw). lia.
Qed.

Lemma keys_vmems_sub R (mems : list (string * (mkind * atree))) kv :
  In kv (flat_map (vmem R) mems) -> exists m, In m mems /\ In kv (vmem R m) /\ fst kv = fst m.
Proof.
  intros Hin. apply in_flat_map in Hin as [[name [mk s]] [Hm Hkv]]. exists (name, (mk, s)). split; [assumption|]. split; [assumption|].
  destruct mk as [|salt|l]; cbn in Hkv.
  - destruct Hkv as [<-|[]]. reflexivity.
  - destruct (R (dig_mem salt name s)); [|destruct Hkv]. destruct Hkv as [<-|[]]. reflexivity.
  - destruct Hkv as [<-|[]]. reflexivity.
Qed.

Lemma ssorted_vmems R (mems : list (string * (mkind * atree))) :
  StronglySorted slt (map fst mems) -> StronglySorted slt (map fst (flat_map (vmem R) mems)).
Proof.
  induction mems as [|[name [mk s]] r IH]; cbn [map flat_map]; intros Hs; [constructor|].
  apply StronglySorted_inv in Hs as [Hs Hf]. specialize (IH Hs).
  assert (Hlt : Forall (slt name) (map fst (flat_map (vmem R) r))).
  { rewrite Forall_forall in Hf |- *. intros k Hk. apply Hf. apply in_map_iff in Hk as [kv [<- Hkv]].
    apply keys_vmems_sub in Hkv as (m & Hm & _ & ->). apply in_map. assumption. }
  rewrite map_app.
  destruct mk as [|salt|l]; cbn.
  - constructor; assumption.
  - destruct (R (dig_mem salt name s)); cbn; [constructor; assumption|assumption].
  - constructor; assumption.
Qed.

Lemma existsb_strs_in g l : In g l -> existsb (fun x => json_eqb_str x g) (map JStr l) = true.
Proof. intros Hin. apply existsb_exists. exists (JStr g). split; [apply in_map; assumption|]. cbn. apply String.eqb_refl. Qed.

Lemma append_assoc_s (a b c : string) : ((a ++ b) ++ c = a ++ (b ++ c))%string.
Proof. induction a; cbn; congruence. Qed.

Lemma format_path_app path k suffix : (format_path path k ++ suffix)%string = (path ++ ("/" ++ esc_tok k ++ suffix))%string.
Proof. unfold format_path. rewrite !append_assoc_s. reflexivity. Qed.

Theorem restore1_exposed : forall t, wf t -> forall n R g k v d,
  NoDup (alldigs t) -> NoDup (hdigs t) -> closedR R t -> aheight t <= n ->
  Exposed R g k v t -> d_digest d = g -> d_key d = k -> d_val d = v ->
  exists suffix, NodePath g t suffix /\ forall path, restore1 n d path (view R t) = Ok (view (Radd R g) t, [((path ++ suffix)%string, d)], true).
Proof.
  induction t as [j | items IH | mems IH] using atree_ind'; intros Hwf.
  - intros n R g k v d Hnd Hndh Hcl Hh Hex Hdg Hdk Hdv. inversion Hex.
  - (* arrays *)
    inversion Hwf as [| ? Hall Hiok |]; subst.
    intros n R g k v d Hnd Hndh Hcl Hh Hex Hdg Hdk Hdv.
    rewrite aheight_arr in Hh. destruct n as [|n]; [lia|]. apply le_S_n in Hh.
    rewrite alldigs_arr in Hnd. rewrite hdigs_arr in Hndh. apply closedR_arr in Hcl.
    assert (HR : forall g', g' <> d_digest d -> Radd R g g' = R g') by (intros; apply Radd_other; congruence).
    apply Exposed_arr_inv in Hex as [(salt & s & Hin & Hg & HRg & Hk & Hv)|(ik & s & Hin & Hop & Hexs)].
    + (* the placeholder is an element of this array *)
      destruct (in_split _ _ Hin) as (pre & post & Hsplit).
      assert (Hws : wf s) by (rewrite Forall_forall in Hall; exact (Hall _ Hin)).
      assert (Hgs : ~ In g (alldigs s)).
      { pose proof (NoDup_flat_map_in adigs_item _ _ Hnd Hin) as Hn1. cbn in Hn1. inversion Hn1; subst. assumption. }
      assert (Hvb : view (Radd R g) s = blind s).
      { apply view_blind. intros g' Hg'. rewrite Radd_other.
        - rewrite Forall_forall in Hcl. specialize (Hcl _ Hin). cbn in Hcl. rewrite <- Hg, HRg in Hcl. cbn in Hcl. auto.
        - intros ->. apply Hgs. apply hdigs_alldigs; assumption. }
      exists ("/" ++ esc_tok (show_nat (List.length pre)))%string. split; [eapply np_item_here; eauto|]. intros path.
      pose proof (restore1_arr_step H enc show_nat n d path R (Radd R g) items pre (IHid salt, s) post (blind s)
                  (fun i => [(format_path path (show_nat i), d)])) as Hw.
      cbn [Model2.restore1]. rewrite view_arr. rewrite Hw; try assumption.
      * cbn [bind]. rewrite view_arr. reflexivity.
      * rewrite Hdg. left. symmetry. assumption.
      * intros i. unfold arr_body. cbn [ATree.view_item]. rewrite <- Hg, HRg. cbn [placeholder_of placeholder obj_get].
        cbn. rewrite Hdg, String.eqb_refl, Hdk, Hk. cbn [bind].
        rewrite Hdv, Hv. rewrite blind_no_occ; [reflexivity|assumption|rewrite Hdg; assumption|].
        pose proof (hmax_in item_h _ _ Hin) as Hm. unfold item_h in Hm. lia.
      * cbn [ATree.view_item]. rewrite <- Hg, Radd_same. symmetry. assumption.
    + (* the placeholder is deeper, inside an opened element *)
      destruct (in_split _ _ Hin) as (pre & post & Hsplit).
      assert (Hws : wf s) by (rewrite Forall_forall in Hall; exact (Hall _ Hin)).
      assert (Hgh : In g (hdigs s)) by (eapply Exposed_hdigs; eauto).
      assert (Hvi : forall R0, iopened H enc R0 (ik, s) = Some true -> vitem R0 (ik, s) = view R0 s).
      { intros R0 Ho. destruct ik as [|salt|g0]; cbn in Ho |- *; [reflexivity| |discriminate]. injection Ho as ->. reflexivity. }
      assert (Hop' : iopened H enc (Radd R g) (ik, s) = Some true).
      { destruct ik as [|salt|g0]; cbn in Hop |- *; [reflexivity| |discriminate]. injection Hop as Hop. rewrite Radd_mono; auto. }
      assert (Hsub : exists suffix, NodePath g s suffix /\ forall p, restore1 n d p (view R s) = Ok (view (Radd R g) s, [((p ++ suffix)%string, d)], true)).
      { rewrite Forall_forall in IH. specialize (IH _ Hin). cbn in IH.
        assert (Hn1 : NoDup (alldigs s)).
        { pose proof (NoDup_flat_map_in adigs_item _ _ Hnd Hin) as Hn1. destruct ik; cbn in Hn1; [assumption|inversion Hn1; assumption|].
          cbn in Hop. discriminate. }
        assert (Hn2 : NoDup (hdigs s)).
        { pose proof (NoDup_flat_map_in hdigs_item _ _ Hndh Hin) as Hn2. destruct ik; cbn in Hn2; [assumption|inversion Hn2; assumption|assumption]. }
        assert (Hc : closedR R s).
        { rewrite Forall_forall in Hcl. specialize (Hcl _ Hin). rewrite Hop in Hcl. exact Hcl. }
        assert (Hhs : aheight s <= n).
        { pose proof (hmax_in item_h _ _ Hin) as Hm. unfold item_h in Hm. destruct ik; lia. }
        eapply IH; eauto. }
      destruct Hsub as [suffix [Hnp Hsub]].
      exists ("/" ++ esc_tok (show_nat (List.length pre)) ++ suffix)%string. split; [eapply np_item_in; eauto|]. intros path.
      pose proof (restore1_arr_step H enc show_nat n d path R (Radd R g) items pre (ik, s) post (view (Radd R g) s)
                  (fun i => [((format_path path (show_nat i) ++ suffix)%string, d)])) as Hw.
      cbn [Model2.restore1]. rewrite view_arr. rewrite Hw; try assumption.
      * cbn [bind]. rewrite view_arr, format_path_app. reflexivity.
      * rewrite Hdg. pose proof (hdigs_alldigs H enc s Hws g Hgh). destruct ik; cbn; auto. cbn in Hop. discriminate.
      * intros i. unfold arr_body. rewrite (Hvi R Hop). rewrite placeholder_of_view by assumption. cbn [bind].
        rewrite Hsub. reflexivity.
      * rewrite (Hvi _ Hop'). reflexivity.
  - (* objects *)
    inversion Hwf as [| | ? Hs Hall Hok]; subst.
    intros n R g k v d Hnd Hndh Hcl Hh Hex Hdg Hdk Hdv.
    rewrite aheight_obj in Hh. destruct n as [|n]; [lia|]. apply le_S_n in Hh.
    rewrite alldigs_obj in Hnd. rewrite hdigs_obj in Hndh. apply closedR_obj in Hcl.
    assert (HR : forall g', g' <> d_digest d -> Radd R g g' = R g') by (intros; apply Radd_other; congruence).
    assert (Hnames : Forall mem_names_ok mems).
    { rewrite Forall_forall in Hok |- *. intros [name [mk s]] Hm. specialize (Hok _ Hm). unfold mem_names_ok. cbn in *.
      destruct mk; tauto. }
    assert (Hkeys : NoDup (map fst (flat_map (vmem R) mems))) by (apply ssorted_nodup, ssorted_vmems; assumption).
    (* what obj_get "_sd" can return on a view *)
    assert (Hsdget : forall sd, obj_get "_sd" (flat_map (vmem R) mems) = Some sd ->
              exists y l, In y mems /\ fst (snd y) = MSd l /\ sd = JArr (map JStr l)).
    { intros sd Hget. apply obj_get_in in Hget. apply in_flat_map in Hget as [[ny [mk sy]] [Hy Hkv]].
      rewrite Forall_forall in Hnames. specialize (Hnames _ Hy). unfold mem_names_ok in Hnames. cbn in Hnames.
      exists (ny, (mk, sy)). destruct mk as [|salt|l]; cbn in Hkv.
      - destruct Hkv as [Hq|[]]. injection Hq as -> _. tauto.
      - destruct (R (dig_mem salt ny sy)); [|destruct Hkv]. destruct Hkv as [Hq|[]]. injection Hq as -> _. tauto.
      - destruct Hkv as [Hq|[]]. injection Hq as _ <-. exists l. auto. }
    apply Exposed_obj_inv in Hex as [(name & salt & s & Hin & Hg & HRg & Hk & Hv)|(name & mk & s & Hin & Hop & Hexs)].
    + (* the digest is in this object's _sd *)
      destruct (in_split _ _ Hin) as (pre & post & Hsplit).
      assert (Hws : wf s) by (rewrite Forall_forall in Hall; exact (Hall _ Hin)).
      assert (Hmok : name <> "_sd" /\ In g (sd_of mems)).
      { rewrite Forall_forall in Hok. specialize (Hok _ Hin). cbn in Hok. rewrite Hg. tauto. }
      destruct Hmok as [Hnsd Hgsd].
      unfold sd_of in Hgsd. apply in_flat_map in Hgsd as [[ny [mky sy]] [Hy Hgl]]. cbn in Hgl.
      destruct mky as [| |l]; try destruct Hgl.
      assert (Hny : ny = "_sd") by (rewrite Forall_forall in Hok; specialize (Hok _ Hy); cbn in Hok; tauto).
      subst ny.
      assert (Hyother : In ("_sd", (MSd l, sy)) (pre ++ post)).
      { rewrite Hsplit in Hy. apply in_app_or in Hy as [|[Hq|]]; [apply in_or_app; left; assumption| |apply in_or_app; right; assumption].
        injection Hq as Hq _. congruence. }
      assert (Hgs : ~ In g (alldigs s)).
      { rewrite Hsplit in Hnd. intros Hgs.
        eapply (NoDup_flat_map_other adigs_mem pre (name, (MHid salt, s)) post g Hnd Hgs _ Hyother). exact Hgl. }
      assert (Hvb : view (Radd R g) s = blind s).
      { apply view_blind. intros g' Hg'. rewrite Radd_other.
        - rewrite Forall_forall in Hcl. specialize (Hcl _ Hin). cbn in Hcl. rewrite <- Hg, HRg in Hcl. cbn in Hcl. auto.
        - intros ->. apply Hgs. apply hdigs_alldigs; assumption. }
      assert (Hoth := fun path => mem_others H enc show_nat n d path R (Radd R g) mems pre (name, (MHid salt, s)) post Hsplit Hall Hnames Hnd Hndh Hh).
      assert (Hdisj : In (d_digest d) (adigs_mem (name, (MHid salt, s))) \/
                 exists y l0, In y (pre ++ post) /\ fst (snd y) = MSd l0 /\ In (d_digest d) l0).
      { right. exists ("_sd", (MSd l, sy)), l. rewrite Hdg. auto. }
      assert (Hdh : In (d_digest d) (hdigs_mem (name, (MHid salt, s)))) by (rewrite Hdg; left; symmetry; exact Hg).
      assert (Hoth' := fun path => Hoth path Hdisj Hdh HR). clear Hoth. rename Hoth' into Hoth.
      (* shape of the view before and after *)
      assert (HF : flat_map (vmem R) mems = (flat_map (vmem R) pre ++ flat_map (vmem R) post)%list).
      { rewrite Hsplit, flat_map_app. cbn [flat_map ATree.view_mem]. rewrite <- Hg, HRg. reflexivity. }
      assert (HF' : flat_map (vmem (Radd R g)) mems = (flat_map (vmem R) pre ++ (name, blind s) :: flat_map (vmem R) post)%list).
      { rewrite Hsplit, flat_map_app. cbn [flat_map ATree.view_mem]. rewrite <- Hg, Radd_same, Hvb. cbn [app].
        f_equal; [|f_equal]; apply flat_map_ext_in'; intros y0 Hy0; apply (Hoth ""%string); apply in_or_app; [left|right]; assumption. }
      assert (Hsorted := Hs). rewrite Hsplit, map_app in Hsorted. cbn [map fst] in Hsorted.
      apply ssorted_split in Hsorted as [Hlt Hgt].
      assert (Hpre_lt : Forall (fun kv : string * json => slt (fst kv) name) (flat_map (vmem R) pre)).
      { apply Forall_forall. intros kv Hkv. apply keys_vmems_sub in Hkv as (m' & Hm' & _ & ->).
        rewrite Forall_forall in Hlt. apply Hlt. apply in_map. assumption. }
      assert (Hpost_gt : Forall (fun kv : string * json => slt name (fst kv)) (flat_map (vmem R) post)).
      { apply Forall_forall. intros kv Hkv. apply keys_vmems_sub in Hkv as (m' & Hm' & _ & ->).
        rewrite Forall_forall in Hgt. apply Hgt. apply in_map. assumption. }
      assert (Hsd : forall path, sd_step d path (flat_map (vmem R) pre ++ flat_map (vmem R) post) =
                    Ok ((flat_map (vmem R) pre ++ (name, blind s) :: flat_map (vmem R) post)%list, [(format_path path name, d)], true)).
      { intros path. unfold sd_step.
        rewrite (obj_get_unique "_sd" (JArr (map JStr l))).
        - cbn [sd_contains bind]. rewrite Hdg, existsb_strs_in by assumption. rewrite Hdk, Hk.
          rewrite obj_get_none.
          + rewrite obj_insert_mid by assumption. rewrite Hdv, Hv. reflexivity.
          + rewrite map_app. intros Hn. apply in_app_or in Hn as [Hn|Hn].
            * rewrite Forall_forall in Hpre_lt. apply in_map_iff in Hn as [kv [Hq Hkv]]. specialize (Hpre_lt _ Hkv).
              rewrite Hq in Hpre_lt. exact (slt_irrefl _ Hpre_lt).
            * rewrite Forall_forall in Hpost_gt. apply in_map_iff in Hn as [kv [Hq Hkv]]. specialize (Hpost_gt _ Hkv).
              rewrite Hq in Hpost_gt. exact (slt_irrefl _ Hpost_gt).
        - rewrite <- HF. assumption.
        - rewrite <- flat_map_app. apply in_flat_map. exists ("_sd", (MSd l, sy)). split; [assumption|]. left. reflexivity. }
      exists ("/" ++ esc_tok name)%string. split; [eapply np_mem_here; eauto|]. intros path. specialize (Hsd path). specialize (Hoth path).
      cbn [Model2.restore1]. rewrite !view_obj, HF, HF', Hsd. cbn [bind].
      rewrite walk_id.
      * cbn [bind]. reflexivity.
      * intros kv Hkv. apply in_app_or in Hkv as [Hkv|[<-|Hkv]].
        -- apply in_flat_map in Hkv as [y [Hy0 Hkv]]. eapply Hoth; [apply in_or_app; left; exact Hy0|exact Hkv].
        -- unfold obj_body. rewrite blind_no_occ; [reflexivity|assumption|rewrite Hdg; assumption|].
           pose proof (hmax_in mem_h _ _ Hin) as Hm. unfold mem_h in Hm. lia.
        -- apply in_flat_map in Hkv as [y [Hy0 Hkv]]. eapply Hoth; [apply in_or_app; right; exact Hy0|exact Hkv].
    + (* the digest is deeper, inside a visible member *)
      destruct (in_split _ _ Hin) as (pre & post & Hsplit).
      assert (Hws : wf s) by (rewrite Forall_forall in Hall; exact (Hall _ Hin)).
      assert (Hgh : In g (hdigs s)) by (eapply Exposed_hdigs; eauto).
      assert (Hga : In g (alldigs s)) by (apply hdigs_alldigs; assumption).
      assert (Hkind : mk = MPlain \/ exists salt, mk = MHid salt /\ R (dig_mem salt name s) = true).
      { destruct mk as [|salt|l]; cbn in Hop; [left; reflexivity| |discriminate]. injection Hop as Hop. right. eauto. }
      assert (Hvm : forall R0, mopened H enc R0 (name, (mk, s)) = Some true -> vmem R0 (name, (mk, s)) = [(name, view R0 s)]).
      { intros R0 Ho. destruct mk as [|salt|l]; cbn in Ho |- *; [reflexivity| |discriminate]. injection Ho as ->. reflexivity. }
      assert (Hop' : mopened H enc (Radd R g) (name, (mk, s)) = Some true).
      { destruct mk as [|salt|l]; cbn in Hop |- *; [reflexivity| |discriminate]. injection Hop as Hop. rewrite Radd_mono; auto. }
      assert (Hadm : In (d_digest d) (adigs_mem (name, (mk, s)))).
      { rewrite Hdg. destruct Hkind as [->|(salt & -> & _)]; cbn; assumption. }
      assert (Hhdm : In (d_digest d) (hdigs_mem (name, (mk, s)))).
      { rewrite Hdg. destruct Hkind as [->|(salt & -> & _)]; cbn; [assumption|right; assumption]. }
      assert (Hoth := fun path => mem_others H enc show_nat n d path R (Radd R g) mems pre (name, (mk, s)) post Hsplit Hall Hnames Hnd Hndh Hh
                        (or_introl Hadm) Hhdm HR).
      assert (HF : flat_map (vmem R) mems = (flat_map (vmem R) pre ++ (name, view R s) :: flat_map (vmem R) post)%list).
      { rewrite Hsplit, flat_map_app. cbn [flat_map]. rewrite (Hvm R Hop). reflexivity. }
      assert (HF' : flat_map (vmem (Radd R g)) mems = (flat_map (vmem R) pre ++ (name, view (Radd R g) s) :: flat_map (vmem R) post)%list).
      { rewrite Hsplit, flat_map_app. cbn [flat_map]. rewrite (Hvm _ Hop'). cbn [app].
        f_equal; [|f_equal]; apply flat_map_ext_in'; intros y0 Hy0; apply (Hoth ""%string); apply in_or_app; [left|right]; assumption. }
      assert (Hsd : forall path, sd_step d path (flat_map (vmem R) mems) = Ok (flat_map (vmem R) mems, [], false)).
      { intros path. unfold sd_step. destruct (obj_get "_sd" (flat_map (vmem R) mems)) as [sd|] eqn:Eg; [|reflexivity].
        destruct (Hsdget _ eq_refl) as (y & l & Hy & Hky & ->). cbn [sd_contains bind].
        destruct (existsb (fun x => json_eqb_str x (d_digest d)) (map JStr l)) eqn:Ec; [|reflexivity].
        exfalso. apply existsb_strs in Ec.
        assert (Hyo : In y (pre ++ post)).
        { rewrite Hsplit in Hy. apply in_app_or in Hy as [|[Hq|]]; [apply in_or_app; left; assumption| |apply in_or_app; right; assumption].
          subst y. cbn in Hky. destruct Hkind as [->|(salt & -> & _)]; discriminate. }
        rewrite Hsplit in Hnd.
        eapply (NoDup_flat_map_other adigs_mem pre (name, (mk, s)) post (d_digest d) Hnd Hadm y Hyo).
        destruct y as [ny [ky sy]]. cbn in Hky |- *. subst ky. exact Ec. }
      assert (Hsub : exists suffix, NodePath g s suffix /\ forall p, restore1 n d p (view R s) = Ok (view (Radd R g) s, [((p ++ suffix)%string, d)], true)).
      { rewrite Forall_forall in IH. specialize (IH _ Hin). cbn in IH.
        assert (Hn1 : NoDup (alldigs s)).
        { pose proof (NoDup_flat_map_in adigs_mem _ _ Hnd Hin) as Hn1. destruct Hkind as [->|(salt & -> & _)]; cbn in Hn1; assumption. }
        assert (Hn2 : NoDup (hdigs s)).
        { pose proof (NoDup_flat_map_in hdigs_mem _ _ Hndh Hin) as Hn2. destruct Hkind as [->|(salt & -> & _)]; cbn in Hn2; [assumption|inversion Hn2; assumption]. }
        assert (Hc : closedR R s).
        { rewrite Forall_forall in Hcl. specialize (Hcl _ Hin). rewrite Hop in Hcl. exact Hcl. }
        assert (Hhs : aheight s <= n).
        { pose proof (hmax_in mem_h _ _ Hin) as Hm. unfold mem_h in Hm. destruct Hkind as [->|(salt & -> & _)]; lia. }
        eapply IH; eauto. }
      destruct Hsub as [suffix [Hnp Hsub]].
      exists ("/" ++ esc_tok name ++ suffix)%string. split; [eapply np_mem_in; eauto|]. intros path.
      cbn [Model2.restore1]. rewrite !view_obj, Hsd. cbn [bind]. rewrite HF, HF'.
      rewrite (walk_split (obj_body (restore1 n d) path) (flat_map (vmem R) pre) (name, view R s) (flat_map (vmem R) post)
                 (name, view (Radd R g) s) [((format_path path name ++ suffix)%string, d)] true).
      * cbn [bind]. rewrite format_path_app. reflexivity.
      * intros kv Hkv. apply in_flat_map in Hkv as [y [Hy0 Hkv]]. eapply (Hoth path); [apply in_or_app; left; exact Hy0|exact Hkv].
      * unfold obj_body. rewrite Hsub. cbn [bind]. reflexivity.
      * intros kv Hkv. apply in_flat_map in Hkv as [y [Hy0 Hkv]]. eapply (Hoth path); [apply in_or_app; right; exact Hy0|exact Hkv].
Qed.
Print Assumptions restore1_exposed.
End G.
