(* C01 / C14 at the level of path STRINGS: the issuer is given the JSON pointers (RFC 6901) of existing nodes,
   descendants before ancestors, no repeats; encode succeeds, Holder::verify returns the original claims and
   reports every disclosure under exactly the string the issuer was given for it. *)
From Coq Require Import List String Ascii Bool Arith ZArith NArith Lia Permutation.
Import ListNotations.
Require Import SDJ.Json SDJ.Wire SDJ.Model2 SDJ.Out SDJ.Restore2 SDJ.ATree SDJ.T2c SDJ.T1e SDJ.T1j SDJ.T1k SDJ.T1r SDJ.T1s SDJ.T1p
  SDJ.Split SDJ.Issuer1 SDJ.Issuer2 SDJ.Verify.
Require Import SDJ.DecStr SDJ.PathStr.
Local Open Scope string_scope.

Notation render := (T1s.render Wire.show_nat).

(* an address of a node below the root: non-empty, present in the claims, indices representable as usize *)
Definition node_addr (C : json) (a : addr) : Prop := a <> [] /\ jat a C /\ small a.

Lemma split_paths_render (C : json) : jwf C -> forall addrs, Forall (node_addr C) addrs ->
  exists tks, split_paths (map render addrs) = Some tks /\
              Forall2 (fun p a => jresolve Issuer2.parse_index Issuer2.parse_usize (fst p) (snd p) C = Some a) tks addrs.
Proof.
  intros Hw. induction 1 as [|a r (Hne & Hat & Hs) _ (tks & Hsp & HF)].
  - exists []. split; [reflexivity|constructor].
  - destruct (exists_last Hne) as (a' & t & ->).
    destruct (render_resolves a' t C Hw Hat Hs) as (toks & key & Hp & Hr).
    exists ((toks, key) :: tks). split.
    + cbn [map]. rewrite split_paths_cons, Hp, Hsp. reflexivity.
    + constructor; [exact Hr|exact HF].
Qed.

Section S.
Variable E : issue_env.
Variable O : oracles.
Notation H := (ie_hash E).
Notation enc := (ie_enc E).
Hypothesis hash_inj : forall x y, H x = H y -> x = y.
Hypothesis dec_enc : forall ps, o_dec O (enc ps) = DJson (JArr ps).
Hypothesis hash_is : o_hash O SHA256 = H.
Hypothesis jwt_round : forall h p j, ie_sign E h p = Val j -> o_jwt O j = Val (h, p).
Hypothesis sign_total : forall h p, exists j, ie_sign E h p = Val j /\ contains tilde j = false.
Hypothesis enc_no_tilde : forall ps, contains tilde (enc ps) = false.
Hypothesis perm_ok : forall xs, Permutation (ie_perm E xs) xs.

Theorem encode_json_pointers
    (ckvs : list (string * json)) (addrs : list addr) (max_decoys : option Z) (cnf : option json) (header : json) :
  jwf (JObj ckvs) -> ~ In "_sd_alg" (map fst ckvs) -> ~ In "cnf" (map fst ckvs) ->
  NoDup (ie_salts E) -> addrs <> [] -> Forall (node_addr (JObj ckvs)) addrs -> ordered addrs ->
  List.length addrs <= List.length (ie_salts E) ->
  exists t',
    (exists tks, split_paths (map render addrs) = Some tks /\
       T1j.mark_fold H enc Issuer2.parse_index Issuer2.parse_usize (ie_pos E) (embed (JObj ckvs)) tks (ie_salts E) = Some t') /\
    (NoDup (decoys_used E max_decoys) ->
     (forall g, In g (decoys_used E max_decoys) -> ~ In g (alldigs H enc t')) ->
     (match cnf with Some c => jwf c /\ S (aheight (embed c)) <= 129 | None => True end) ->
     aheight t' <= 129 ->
     exists token payload ds ps,
       issue E (JObj ckvs) (map render addrs) max_decoys cnf header = Val (token, payload, ds) /\
       holder_verify O token = Val (header, match cnf with Some c => JObj (obj_insert "cnf" c ckvs) | None => JObj ckvs end, ps) /\
       Permutation (map snd ps) ds /\
       (* the i-th disclosure is reported under the i-th string the issuer was given *)
       Forall2 (fun d p => In (p, d) ps) ds (map render addrs)).
Proof.
  intros HC Hnalg Hncnf Hnds Hne Hnodes Hord Hlen.
  destruct (split_paths_render (JObj ckvs) HC addrs Hnodes) as (tks & Hsp & HF).
  assert (Hlt : List.length tks <= List.length (ie_salts E)).
  { assert (Hq : List.length tks = List.length addrs) by (clear -HF; induction HF; cbn; congruence). rewrite Hq. exact Hlen. }
  destruct (valid_marking_accepted H enc Issuer2.parse_index Issuer2.parse_usize (ie_pos E) (JObj ckvs) tks addrs (ie_salts E) HC HF Hord Hlt) as [t' Hm].
  exists t'. split; [exists tks; split; assumption|]. intros HndD Hfresh Hcnf Hh.
  assert (Hpne : map render addrs <> []) by (destruct addrs; [congruence|discriminate]).
  destruct (encode_then_holder_verify_paths E O hash_inj dec_enc hash_is jwt_round sign_total enc_no_tilde perm_ok
              ckvs (map render addrs) tks addrs t' max_decoys cnf header HC Hnalg Hncnf Hnds Hpne Hsp HF Hord Hm HndD Hfresh Hcnf Hh)
    as (token & payload & ds & ps & H1 & H2 & H3 & H4).
  exists token, payload, ds, ps. repeat split; try assumption.
  clear -H4. induction H4 as [|d a dr ar Hin _ IH]; cbn [map]; constructor; assumption.
Qed.
End S.
