(* Case glue for kind "present": Holder::presentation -> redact* -> key_binding? -> build (k times) ->
   Verifier::verify. Serves C02, C06, C08, C09. *)
From Coq Require Import List String Ascii Bool Arith NArith ZArith.
Import ListNotations.
Require Import SDJ.Json SDJ.Wire SDJ.Model2 SDJ.Out SDJ.Restore2 SDJ.Split SDJ.SplitM SDJ.Spec SDJ.RefVerify SDJ.Verify SDJ.CaseLib SDJ.CaseIssue.
Local Open Scope string_scope.

Definition holder_of (O : oracles) (input : json) : out holder :=
  dO h0 <- holder_presentation O (jstr_or_empty (jget "token" input));
  let h1 := fold_left holder_redact (jstrs (jget "redact" input)) h0 in
  (* an earlier key_binding call on the same Holder: the last call counts *)
  let h1 := match jget "kb_first" input with
            | JObj _ as f => holder_key_binding h1 (jstr_or_empty (jget "aud" f)) (jget "alg" f)
            | _ => h1 end in
  match jget "kb" input with
  | JObj _ as kb => Val (holder_key_binding h1 (jstr_or_empty (jget "aud" kb)) (jget "alg" kb))
  | _ => Val h1 end.

Definition env_of_build (b : json) : build_env :=
  let kb := jget "kb" b in
  {| e_nonce := jstr_or_empty (jget "nonce" (jget "claims" kb));
     e_iat := jget "iat" (jget "claims" kb);
     e_sign := sign_of_table [JArr [jget "header" kb; jget "claims" kb; jget "jwt" kb]] |}.

Definition with_kb_tables (O : oracles) (input b : json) : oracles :=
  let kb := jget "kb" b in
  let cnf := jget "cnf" input in
  let valid := jbool (jget "sig_ok" kb) && jbool (jget "policy_ok" kb) in
  {| o_hash := fun alg s => match lookup3 (halg_name alg) s (jlist (jget "H" kb)) with
                            | Some (JStr d) => d
                            | _ => o_hash O alg s end;
     o_dec := o_dec O; o_jwt := o_jwt O; o_claims := o_claims O;
     o_kb := if valid
             then kb_of_table [JArr [jget "jwt" kb; jget "n" cnf; jget "e" cnf; jget "header" kb; jget "claims" kb]]
             else fun _ _ _ => Fail |}.

Fixpoint is_alnum32 (n : nat) (s : string) : bool :=
  match n, s with
  | O, EmptyString => true
  | S n', String c r =>
      let k := nat_of_ascii c in
      ((Nat.leb 48 k && Nat.leb k 57) || (Nat.leb 65 k && Nat.leb k 90) || (Nat.leb 97 k && Nat.leb k 122)) && is_alnum32 n' r
  | _, _ => false end.

(* C09: what the key-binding JWT of a built presentation must look like *)
Definition kb_oracle (input b : json) : option string :=
  match jget "kb" input with
  | JObj _ as want =>
      let kb := jget "kb" b in
      let hdr := jget "header" kb in
      let cl := jget "claims" kb in
      let p := jstr_or_empty (obs_val (jget "build" b)) in
      let prefix := drop_kb p in
      match parse_halg (jstr_or_empty (jget "sd_alg" input)) with
      | None => Some "case without a digest algorithm"
      | Some alg =>
          let expect_hash := match lookup3 (halg_name alg) prefix (jlist (jget "H" kb)) with Some (JStr d) => d | _ => "!missing" end in
          (* the property fixes two members of the header, the algorithm supplied and the type; it forbids no other member *)
          if negb (json_eqb (jget "alg" hdr) (jget "alg" want) && json_eqb (jget "typ" hdr) (JStr "kb+jwt")) then Some "KB-JWT header does not name the supplied algorithm and the type kb+jwt"
          else if negb (json_eqb (jget "aud" cl) (jget "aud" want)) then Some "KB-JWT aud differs from the supplied audience"
          else if negb (json_eqb (jget "sd_hash" cl) (JStr expect_hash)) then Some "sd_hash is not the hash of the presentation up to its last '~' under _sd_alg"
          else if negb (jbool (jget "sig_ok" kb)) then Some "KB-JWT signature does not verify under the bound key (independent check)"
          else match jget "nonce" cl with
               (* "a fresh unpredictable nonce": at least 16 characters here (the library draws 32 alphanumerics; how long and
                  from which alphabet is not the property's business), pairwise distinct across builds (case_present) *)
               | JStr n => if Nat.ltb (String.length n) 16 then Some "the nonce is shorter than 16 characters"
                           else match Z_of_json (jget "iat" cl), Z_of_json (jget "t0" b), Z_of_json (jget "t1" b) with
                                | Some i, Some t0, Some t1 => if ((t0 <=? i) && (i <=? t1))%Z then None else Some "iat is not the current time"
                                | _, _, _ => Some "iat missing" end
               | _ => Some "nonce missing" end
      end
  | _ => None
  end.

(* C02/C06: the built presentation carries the issuer JWT and exactly the disclosures that are not withheld *)
Definition build_oracle (final : bool) (input b : json) (o : json) : option string :=
  let e := jget "expect" input in
  let want := jstr_or_empty (jget "build" e) in
  if obs_is "panic" o then Some "Holder::build panics"
  else if String.eqb want "err" then (if obs_is "err" o then None else Some "built a presentation without key binding from a bound SD-JWT")
  else if negb (obs_is "ok" o) then Some "Holder::build fails"
  else
    let p := jstr_or_empty (obs_val o) in
    let '(jwt, ds, kb) := sd_jwt_parts p in
    let '(jwt0, _, _) := sd_jwt_parts (jstr_or_empty (jget "token" input)) in
    if negb (String.eqb jwt jwt0) then Some "the issuer JWT segment was changed"
    else if final && jbool (jget "judge_disclosures" input) && negb (json_eqb (JArr (sort_json (map JStr ds))) (expected_strings e)) then
      Some "the presentation does not carry exactly the disclosures of the claims that are not withheld"
    else kb_oracle input b.

(* substring search, for the confidentiality oracle *)
Fixpoint is_substring (needle hay : string) : bool :=
  starts_with needle hay || match hay with EmptyString => false | String _ r => is_substring needle r end.

(* C06: sentinels of withheld claims occur in no decoded segment of the presentation.
   "sentinels" = [[mark index, sentinel string], ...] *)
Definition leak_oracle (input b : json) : option string :=
  let e := jget "expect" input in
  let present := map jbool (jlist (jget "present" e)) in
  let marks := map tpath_of_json (jlist (jget "marks" e)) in
  let mp := combine marks present in
  let revealed (m : tpath) : bool := forallb (fun q : tpath * bool => negb (is_prefix (fst q) m) || snd q) mp in
  let texts := jstrs (jget "decoded" b) in
  let leaks := flat_map (fun st => match st with
                                   | JArr [JNum i; JStr s] =>
                                       match nat_of_dec i with
                                       | Some k => if revealed (nth k marks []) then []
                                                   else if existsb (is_substring s) texts then [s] else []
                                       | None => [] end
                                   | _ => [] end) (jlist (jget "sentinels" input)) in
  (* the issuer-signed JWT must not contain the name or value of any disclosable claim *)
  let itexts := jstrs (jget "issuer_decoded" input) in
  let ileaks := flat_map (fun st => match st with
                                    | JArr [_; JStr s] => if existsb (is_substring s) itexts then [s] else []
                                    | _ => [] end) (jlist (jget "sentinels" input)) in
  match ileaks, leaks with
  | s :: _, _ => Some ("a disclosable claim appears in the issuer-signed JWT: " ++ s)
  | [], s :: _ => Some ("a withheld claim leaks into the presentation: " ++ s)
  | [], [] => None end.

(* final = every redaction of the case has been applied (the case's expectations describe that state); an earlier
   build of a staged case is judged by model agreement, framing and the key-binding oracle only *)
Definition case_present_build (O : oracles) (input : json) (final : bool) (h : out holder) (b : json) : verdict :=
  let nt := jbool (jget "nontrivial" input) in
  let bo := jget "build" b in
  let E := env_of_build b in
  let O' := with_kb_tables O input b in
  let mb := obs_of_out JStr (dO hh <- h; holder_build O' E hh) in
  let v1 := decide (fun o => match build_oracle final input b o with
                             | Some w => Some w
                             | None => if final && obs_is "ok" o then leak_oracle input b else None end) bo mb nt "Holder::build" in
  if obs_is "ok" bo then
    let p := jstr_or_empty (obs_val bo) in
    let kbpol := match jget "kbpol" (jget "verifier" input) with JObj _ => true | _ => false end in
    let mv := obs_of_out (fun r : json * json => let '(hd, c) := r in JArr [hd; c]) (verifier_verify O' p kbpol) in
    let e := jget "expect" input in
    let v2 := decide (if final then expect_oracle e (jstr_or_empty (jget "verify" e)) (Some 1) None
                      else fun o => if obs_is "panic" o then Some "panics" else None) (jget "verify" b) mv nt "Verifier::verify" in
    (* C08: the presentation the library's holder derived also verifies under the independent verifier *)
    let v3 := if final && jbool (jget "ref_check" input) then
                match jlist (jget "jwt" input) with
                | JArr [_; _; payload] :: _ =>
                    let '(_, ds, _) := sd_jwt_parts p in
                    match match ref_alg_name payload with Some a => parse_halg a | None => None end with
                    | Some alg =>
                        let dec s := match o_dec O s with DJson j => Some j | DErr => None end in
                        match ref_verify (o_hash O alg) dec payload ds with
                        | Some c => if json_eqb c (expected_claims e) then VOk false
                                    else VPropFail "the holder's presentation does not verify to the expected claims under the independent verifier"
                        | None => VPropFail "the holder's presentation is rejected by the independent verifier" end
                    | None => VBad "ref_check without _sd_alg" end
                | _ => VBad "ref_check without jwt table" end
              else VOk false in
    worst v1 (worst v2 v3)
  else v1.

(* nonces of repeated builds are pairwise distinct *)
Fixpoint all_distinct (l : list string) : bool :=
  match l with [] => true | x :: r => negb (existsb (String.eqb x) r) && all_distinct r end.

Definition case_present (input obs : json) : verdict :=
  let O := oracles_of input in
  let h := holder_of O input in
  let po := jget "presentation" obs in
  let mp := match h with Val _ => JObj [("o", JStr "ok")] | Fail => JObj [("o", JStr "err")] | Panic => JObj [("o", JStr "panic")] end in
  let nt := jbool (jget "nontrivial" input) in
  let v0 := decide (fun o => if obs_is "panic" o then Some "panics" else if obs_is "ok" o then None else Some "Holder::presentation rejects a conformant SD-JWT")
                   po mp nt "Holder::presentation" in
  let builds := jlist (jget "builds" obs) in
  (* staged redaction: "redact_after"[i] is applied to the same Holder between build i and build i+1 *)
  let stages := map jstrs (jlist (jget "redact_after" input)) in
  let step (st : verdict * out holder * nat) (b : json) :=
    let '(acc, hh, i) := st in
    let hh' := match i with
               | O => hh
               | S j => dO x <- hh; Val (fold_left holder_redact (nth j stages []) x) end in
    let remaining := List.length (filter (fun l => match l with [] => false | _ => true end) (skipn i stages)) in
    (worst acc (case_present_build O input (Nat.eqb remaining 0) hh' b), hh', S i) in
  let vs := fst (fst (fold_left step builds (v0, h, 0))) in
  let nonces := flat_map (fun b => match jget "nonce" (jget "claims" (jget "kb" b)) with JStr n => [n] | _ => [] end) builds in
  if all_distinct nonces then vs else worst vs (VPropFail "Holder::build: the nonce repeats across builds").
