From Coq Require Import List String Ascii Bool Arith Lia Sorting.Sorted.
Import ListNotations.
Require Import SDJ.Json SDJ.Model2 SDJ.ATree SDJ.T2a SDJ.T2b SDJ.T2c SDJ.T2d SDJ.T2e SDJ.T2f SDJ.T2g SDJ.T2i SDJ.T2j.
Local Open Scope string_scope.

Section K.
Variable H : string -> string.
Variable enc : list json -> string.
Notation blind := (blind H enc).
Notation view := (view H enc).
Notation dig_item := (dig_item H enc).
Notation dig_mem := (dig_mem H enc).
Notation hdigs := (hdigs H enc).
Notation alldigs := (alldigs H enc).
Notation wf := (wf H enc).
Notation hdigs_item := (hdigs_item H enc).
Notation hdigs_mem := (hdigs_mem H enc).
Notation Exposed := (Exposed H enc).
Notation closedR := (closedR H enc).
Notation iopened := (iopened H enc).
Notation mopened := (mopened H enc).

(* g is the digest of a hidden node with name k and blinded value v, anywhere in t *)
Inductive IsNode (g : string) (k : option string) (v : json) : atree -> Prop :=
| in_item_here items salt s : In (IHid salt, s) items -> g = dig_item salt s -> k = None -> v = blind s -> IsNode g k v (AArr items)
| in_item_in items ik s : In (ik, s) items -> IsNode g k v s -> IsNode g k v (AArr items)
| in_mem_here mems name salt s : In (name, (MHid salt, s)) mems -> g = dig_mem salt name s -> k = Some name -> v = blind s -> IsNode g k v (AObj mems)
| in_mem_in mems name mk s : In (name, (mk, s)) mems -> IsNode g k v s -> IsNode g k v (AObj mems).

Lemma Exposed_IsNode R g k v t : Exposed R g k v t -> IsNode g k v t.
Proof. induction 1; [eapply in_item_here|eapply in_item_in|eapply in_mem_here|eapply in_mem_in]; eauto. Qed.

Lemma IsNode_hdigs g k v t : IsNode g k v t -> In g (hdigs t).
Proof.
  induction 1 as [items salt s Hin -> _ _ | items ik s Hin _ IH | mems name salt s Hin -> _ _ | mems name mk s Hin _ IH].
  - rewrite hdigs_arr. apply in_flat_map. eexists; split; [exact Hin|]. left. reflexivity.
  - rewrite hdigs_arr. apply in_flat_map. eexists; split; [exact Hin|]. destruct ik; cbn; auto.
  - rewrite hdigs_obj. apply in_flat_map. eexists; split; [exact Hin|]. left. reflexivity.
  - rewrite hdigs_obj. apply in_flat_map. eexists; split; [exact Hin|]. destruct mk; cbn; auto.
Qed.

Lemma IsNode_fun g : forall t k v k' v', NoDup (hdigs t) -> IsNode g k v t -> IsNode g k' v' t -> k = k' /\ v = v'.
Proof.
  induction t as [j | items IH | mems IH] using atree_ind'; intros k v k' v' Hnd H1 H2; [inversion H1| |].
  - rewrite hdigs_arr in Hnd.
    assert (Hsub : forall ik s, In (ik, s) items -> NoDup (hdigs s) /\ (forall salt, ik = IHid salt -> ~ In (dig_item salt s) (hdigs s))).
    { intros ik s Hin. pose proof (NoDup_flat_map_in hdigs_item _ _ Hnd Hin) as Hn. destruct ik; cbn in Hn.
      - split; [assumption|intros ? [=]].
      - inversion Hn; subst. split; [assumption|]. intros ? [= <-]. assumption.
      - split; [assumption|intros ? [=]]. }
    inversion H1 as [? salt s Hin Hg Hk Hv | ? ik s Hin Hs | |]; subst;
    inversion H2 as [? salt' s' Hin' Hg' Hk' Hv' | ? ik' s' Hin' Hs' | |]; subst.
    + assert ((IHid salt, s) = (IHid salt', s')).
      { eapply (NoDup_flat_map_same hdigs_item); eauto; cbn; [left; reflexivity|left; symmetry; assumption]. }
      injection H0 as -> ->. auto.
    + exfalso. assert ((IHid salt, s) = (ik', s')).
      { eapply (NoDup_flat_map_same hdigs_item); eauto; cbn; [left; reflexivity|]. pose proof (IsNode_hdigs _ _ _ _ Hs'). destruct ik'; cbn; auto. }
      injection H0 as <- <-. apply (proj2 (Hsub _ _ Hin) salt eq_refl). eapply IsNode_hdigs; eauto.
    + exfalso. assert ((IHid salt', s') = (ik, s)).
      { eapply (NoDup_flat_map_same hdigs_item); eauto; cbn; [left; reflexivity|]. pose proof (IsNode_hdigs _ _ _ _ Hs). destruct ik; cbn; auto. }
      injection H0 as <- <-. apply (proj2 (Hsub _ _ Hin') salt' eq_refl). eapply IsNode_hdigs; eauto.
    + assert ((ik, s) = (ik', s')).
      { eapply (NoDup_flat_map_same hdigs_item _ _ _ g); eauto.
        - pose proof (IsNode_hdigs _ _ _ _ Hs). destruct ik; cbn; auto.
        - pose proof (IsNode_hdigs _ _ _ _ Hs'). destruct ik'; cbn; auto. }
      injection H0 as <- <-. rewrite Forall_forall in IH. eapply (IH _ Hin); eauto. apply (Hsub _ _ Hin).
  - rewrite hdigs_obj in Hnd.
    assert (Hsub : forall name mk s, In (name, (mk, s)) mems -> NoDup (hdigs s) /\ (forall salt, mk = MHid salt -> ~ In (dig_mem salt name s) (hdigs s))).
    { intros name mk s Hin. pose proof (NoDup_flat_map_in hdigs_mem _ _ Hnd Hin) as Hn. destruct mk; cbn in Hn.
      - split; [assumption|intros ? [=]].
      - inversion Hn; subst. split; [assumption|]. intros ? [= <-]. assumption.
      - split; [assumption|intros ? [=]]. }
    inversion H1 as [| | ? name salt s Hin Hg Hk Hv | ? name mk s Hin Hs]; subst;
    inversion H2 as [| | ? name' salt' s' Hin' Hg' Hk' Hv' | ? name' mk' s' Hin' Hs']; subst.
    + assert ((name, (MHid salt, s)) = (name', (MHid salt', s'))).
      { eapply (NoDup_flat_map_same hdigs_mem); eauto; cbn; [left; reflexivity|left; symmetry; assumption]. }
      injection H0 as -> -> ->. auto.
    + exfalso. assert ((name, (MHid salt, s)) = (name', (mk', s'))).
      { eapply (NoDup_flat_map_same hdigs_mem); eauto; cbn; [left; reflexivity|]. pose proof (IsNode_hdigs _ _ _ _ Hs'). destruct mk'; cbn; auto. }
      injection H0 as <- <- <-. apply (proj2 (Hsub _ _ _ Hin) salt eq_refl). eapply IsNode_hdigs; eauto.
    + exfalso. assert ((name', (MHid salt', s')) = (name, (mk, s))).
      { eapply (NoDup_flat_map_same hdigs_mem); eauto; cbn; [left; reflexivity|]. pose proof (IsNode_hdigs _ _ _ _ Hs). destruct mk; cbn; auto. }
      injection H0 as <- <- <-. apply (proj2 (Hsub _ _ _ Hin') salt' eq_refl). eapply IsNode_hdigs; eauto.
    + assert ((name, (mk, s)) = (name', (mk', s'))).
      { eapply (NoDup_flat_map_same hdigs_mem _ _ _ g); eauto.
        - pose proof (IsNode_hdigs _ _ _ _ Hs). destruct mk; cbn; auto.
        - pose proof (IsNode_hdigs _ _ _ _ Hs'). destruct mk'; cbn; auto. }
      injection H0 as <- <- <-. rewrite Forall_forall in IH. eapply (IH _ Hin); eauto. apply (Hsub _ _ _ Hin).
Qed.

(* when nothing that is presented is exposed any more, the view is the view of the presented set *)
Theorem view_fix R own : forall t,
  (forall g k v, Exposed R g k v t -> own g = false) ->
  (forall g, In g (hdigs t) -> R g = true -> own g = true) ->
  view R t = view own t.
Proof.
  induction t as [j | items IH | mems IH] using atree_ind'; intros Hex Hsub; [reflexivity| |].
  - rewrite !view_arr. f_equal. apply map_ext_in. intros [k s] Hin.
    rewrite Forall_forall in IH. specialize (IH _ Hin). cbn in IH.
    assert (Hs2 : forall g, In g (hdigs s) -> R g = true -> own g = true).
    { intros g Hg. apply Hsub. rewrite hdigs_arr. apply in_flat_map. exists (k, s). split; [assumption|]. destruct k; cbn; auto. }
    destruct k as [|salt|g0]; cbn [ATree.view_item].
    + apply IH; [|assumption]. intros g k v He. apply (Hex g k v). eapply ex_item_in; eauto.
    + destruct (R (dig_item salt s)) eqn:ER.
      * rewrite (Hsub (dig_item salt s)); [|rewrite hdigs_arr; apply in_flat_map; exists (IHid salt, s); split; [assumption|left; reflexivity]|assumption].
        apply IH; [|assumption]. intros g k v He. apply (Hex g k v). eapply ex_item_in; eauto. cbn. rewrite ER. reflexivity.
      * rewrite (Hex (dig_item salt s) None (blind s)); [reflexivity|]. eapply ex_item_here; eauto.
    + reflexivity.
  - rewrite !view_obj. f_equal. apply flat_map_ext_in'. intros [name [k s]] Hin.
    rewrite Forall_forall in IH. specialize (IH _ Hin). cbn in IH.
    assert (Hs2 : forall g, In g (hdigs s) -> R g = true -> own g = true).
    { intros g Hg. apply Hsub. rewrite hdigs_obj. apply in_flat_map. exists (name, (k, s)). split; [assumption|]. destruct k; cbn; auto. }
    destruct k as [|salt|l]; cbn [ATree.view_mem].
    + rewrite IH; [reflexivity| |assumption]. intros g k v He. apply (Hex g k v). eapply ex_mem_in; eauto.
    + destruct (R (dig_mem salt name s)) eqn:ER.
      * rewrite (Hsub (dig_mem salt name s)); [|rewrite hdigs_obj; apply in_flat_map; exists (name, (MHid salt, s)); split; [assumption|left; reflexivity]|assumption].
        rewrite IH; [reflexivity| |assumption]. intros g k v He. apply (Hex g k v). eapply ex_mem_in; eauto. cbn. rewrite ER. reflexivity.
      * rewrite (Hex (dig_mem salt name s) (Some name) (blind s)); [reflexivity|]. eapply ex_mem_here; eauto.
    + reflexivity.
Qed.
End K.
