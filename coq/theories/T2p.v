(* Completeness of the reported path list when every disclosure of the token is presented: each hidden
   node is reported exactly once, with the path string of its position. *)
From Coq Require Import List String Ascii Bool Arith Lia Sorting.Sorted Permutation.
Import ListNotations.
Require Import SDJ.Json SDJ.Model2 SDJ.Restore2 SDJ.ATree SDJ.T2a SDJ.T2b SDJ.T2c SDJ.T2d SDJ.T2e SDJ.T2h SDJ.T2j SDJ.T2k SDJ.T2l SDJ.T2m SDJ.T2n SDJ.T2o.
Local Open Scope string_scope.

Section P.
Variable H : string -> string.
Variable enc : list json -> string.
Variable dec : string -> dec_result.
Variable show_nat : nat -> string.
Hypothesis hash_inj : forall x y, H x = H y -> x = y.
Hypothesis dec_enc : forall ps, dec (enc ps) = DJson (JArr ps).
Notation blind := (blind H enc).
Notation view := (view H enc).
Notation hdigs := (hdigs H enc).
Notation alldigs := (alldigs H enc).
Notation wf := (wf H enc).
Notation Exposed := (Exposed H enc).
Notation NodePath := (NodePath H enc show_nat).

(* when nothing that is owned is left exposed, and every hidden node is owned, every hidden node is open *)
Lemma all_opened (Rf own : Rset) : forall t, wf t ->
  (forall g k v, Exposed Rf g k v t -> own g = false) -> (forall g, In g (hdigs t) -> own g = true) ->
  forall g, In g (hdigs t) -> Rf g = true.
Proof.
  induction t as [j | items IH | mems IH] using atree_ind'; intros Hw Hnoex Hown g Hg.
  - destruct Hg.
  - inversion Hw as [| ? Hall Hiok |]; subst. rewrite (hdigs_arr H enc) in Hg. apply in_flat_map in Hg as [[ik s] [Hin Hg]].
    rewrite Forall_forall in IH, Hall, Hiok. specialize (IH _ Hin). cbn in IH.
    assert (Hsub : forall g', In g' (hdigs_item H enc (ik, s)) -> In g' (hdigs (AArr items))).
    { intros g' Hg'. rewrite (hdigs_arr H enc). apply in_flat_map. exists (ik, s). auto. }
    destruct ik as [|salt|g0]; cbn in Hg.
    + apply IH; [exact (Hall _ Hin)| |intros g' Hg'; apply Hown, Hsub; exact Hg'|assumption].
      intros g' k v Hex. apply (Hnoex g' k v). eapply ex_item_in; eauto.
    + assert (Hself : Rf (dig_item H enc salt s) = true).
      { destruct (Rf (dig_item H enc salt s)) eqn:E; [reflexivity|exfalso].
        assert (Ho : own (dig_item H enc salt s) = true) by (apply Hown, Hsub; left; reflexivity).
        rewrite (Hnoex (dig_item H enc salt s) None (blind s)) in Ho; [discriminate|]. eapply ex_item_here; eauto. }
      destruct Hg as [<-|Hg]; [assumption|].
      apply IH; [exact (Hall _ Hin)| |intros g' Hg'; apply Hown, Hsub; right; exact Hg'|assumption].
      intros g' k v Hex. apply (Hnoex g' k v). eapply ex_item_in; eauto. cbn. rewrite Hself. reflexivity.
    + specialize (Hiok _ Hin). cbn in Hiok. subst s. destruct Hg.
  - inversion Hw as [| | ? Hs Hall Hok]; subst. rewrite (hdigs_obj H enc) in Hg. apply in_flat_map in Hg as [[name [mk s]] [Hin Hg]].
    rewrite Forall_forall in IH, Hall, Hok. specialize (IH _ Hin). cbn in IH.
    assert (Hsub : forall g', In g' (hdigs_mem H enc (name, (mk, s))) -> In g' (hdigs (AObj mems))).
    { intros g' Hg'. rewrite (hdigs_obj H enc). apply in_flat_map. exists (name, (mk, s)). auto. }
    destruct mk as [|salt|l]; cbn in Hg.
    + apply IH; [exact (Hall _ Hin)| |intros g' Hg'; apply Hown, Hsub; exact Hg'|assumption].
      intros g' k v Hex. apply (Hnoex g' k v). eapply ex_mem_in; eauto.
    + assert (Hself : Rf (dig_mem H enc salt name s) = true).
      { destruct (Rf (dig_mem H enc salt name s)) eqn:E; [reflexivity|exfalso].
        assert (Ho : own (dig_mem H enc salt name s) = true) by (apply Hown, Hsub; left; reflexivity).
        rewrite (Hnoex (dig_mem H enc salt name s) (Some name) (blind s)) in Ho; [discriminate|]. eapply ex_mem_here; eauto. }
      destruct Hg as [<-|Hg]; [assumption|].
      apply IH; [exact (Hall _ Hin)| |intros g' Hg'; apply Hown, Hsub; right; exact Hg'|assumption].
      intros g' k v Hex. apply (Hnoex g' k v). eapply ex_mem_in; eauto. cbn. rewrite Hself. reflexivity.
    + specialize (Hok _ Hin). cbn in Hok. destruct Hok as (_ & _ & ->). destruct Hg.
Qed.

Lemma NodePath_hdigs g : forall t p, NodePath g t p -> In g (hdigs t).
Proof.
  intros t p Hn. induction Hn as [items pre post salt s -> -> | items pre post ik s suffix -> _ IH | mems name salt s Hin -> | mems name mk s suffix Hin _ IH].
  - rewrite (hdigs_arr H enc), flat_map_app. apply in_or_app. right. cbn. left. reflexivity.
  - rewrite (hdigs_arr H enc), flat_map_app. apply in_or_app. right. cbn [flat_map]. apply in_or_app. left. destruct ik; cbn; auto.
  - rewrite (hdigs_obj H enc). apply in_flat_map. eexists; split; [exact Hin|]. left. reflexivity.
  - rewrite (hdigs_obj H enc). apply in_flat_map. eexists; split; [exact Hin|]. destruct mk; cbn; auto.
Qed.

Lemma split_pos_other {A} (pre1 pre2 post1 post2 : list A) x1 x2 :
  (pre1 ++ x1 :: post1 = pre2 ++ x2 :: post2)%list -> List.length pre1 <> List.length pre2 -> In x2 (pre1 ++ post1).
Proof.
  revert pre2. induction pre1 as [|z r IH]; intros [|z' r'] Hq Hl; cbn in *; try congruence.
  - injection Hq as _ ->. apply in_or_app. right. left. reflexivity.
  - injection Hq as -> _. left. reflexivity.
  - injection Hq as -> Hq. right. apply (IH r'); [assumption|lia].
Qed.

Lemma mid_eq_inv' {A} (pre pre' post post' : list A) x y :
  (pre ++ x :: post = pre' ++ y :: post')%list -> List.length pre = List.length pre' -> pre = pre' /\ x = y /\ post = post'.
Proof.
  revert pre'. induction pre as [|z r IH]; intros [|z' r'] Hq Hl; cbn in *; try discriminate.
  - injection Hq as -> ->. auto.
  - injection Hq as -> Hq. destruct (IH r' Hq) as (-> & -> & ->); [lia|]. auto.
Qed.

(* a hidden node has one position *)
Lemma NodePath_fun g : forall t p1 p2, NoDup (hdigs t) -> NodePath g t p1 -> NodePath g t p2 -> p1 = p2.
Proof.
  induction t as [j | items IH | mems IH] using atree_ind'; intros p1 p2 Hndh H1 H2.
  - inversion H1.
  - rewrite (hdigs_arr H enc) in Hndh.
    assert (Hpos : forall pre1 post1 x1 pre2 post2 x2, items = (pre1 ++ x1 :: post1)%list -> items = (pre2 ++ x2 :: post2)%list ->
              In g (hdigs_item H enc x1) -> In g (hdigs_item H enc x2) -> pre1 = pre2 /\ x1 = x2).
    { intros pre1 post1 x1 pre2 post2 x2 E1 E2 G1 G2.
      destruct (Nat.eq_dec (List.length pre1) (List.length pre2)) as [Hl|Hl].
      - rewrite E1 in E2. destruct (mid_eq_inv' _ _ _ _ _ _ E2 Hl) as (-> & -> & _). auto.
      - exfalso. rewrite E1 in E2. pose proof (split_pos_other _ _ _ _ _ _ E2 Hl) as Hin. rewrite E1 in Hndh.
        exact (NoDup_flat_map_other (hdigs_item H enc) pre1 x1 post1 g Hndh G1 x2 Hin G2). }
    inversion H1 as [? pre1 post1 salt1 s1 E1 G1 | ? pre1 post1 ik1 s1 suf1 E1 N1 | |]; subst;
    inversion H2 as [? pre2 post2 salt2 s2 E2 G2 | ? pre2 post2 ik2 s2 suf2 E2 N2 | |]; subst.
    + destruct (Hpos _ _ _ _ _ _ eq_refl E2) as [-> _]; [left; reflexivity|left; congruence|reflexivity].
    + exfalso. destruct (Hpos _ _ _ _ _ _ eq_refl E2) as [-> Hq]; [left; reflexivity|apply NodePath_hdigs in N2; destruct ik2; cbn; auto|].
      injection Hq as <- <-. apply NodePath_hdigs in N2.
      assert (Hn1 : NoDup (hdigs_item H enc (IHid salt1, s1))) by (eapply NoDup_flat_map_in; [exact Hndh|apply in_or_app; right; left; reflexivity]).
      cbn in Hn1. inversion Hn1; subst. contradiction.
    + exfalso. destruct (Hpos _ _ _ _ _ _ eq_refl E2) as [-> Hq]; [apply NodePath_hdigs in N1; destruct ik1; cbn; auto|left; reflexivity|].
      injection Hq as -> ->. apply NodePath_hdigs in N1.
      assert (Hn1 : NoDup (hdigs_item H enc (IHid salt2, s2))) by (eapply NoDup_flat_map_in; [exact Hndh|apply in_or_app; right; left; reflexivity]).
      cbn in Hn1. inversion Hn1; subst. contradiction.
    + pose proof (NodePath_hdigs _ _ _ N1) as G1. pose proof (NodePath_hdigs _ _ _ N2) as G2.
      destruct (Hpos _ _ _ _ _ _ eq_refl E2) as [-> Hq]; [destruct ik1; cbn; auto|destruct ik2; cbn; auto|].
      injection Hq as <- <-. f_equal. f_equal.
      rewrite Forall_forall in IH. apply (IH (ik1, s1)); [apply in_or_app; right; left; reflexivity| |assumption|assumption].
      assert (Hn1 : NoDup (hdigs_item H enc (ik1, s1))) by (eapply NoDup_flat_map_in; [exact Hndh|apply in_or_app; right; left; reflexivity]).
      destruct ik1; cbn in Hn1; [assumption|inversion Hn1; assumption|assumption].
  - rewrite (hdigs_obj H enc) in Hndh.
    inversion H1 as [| | ? name1 salt1 s1 Hin1 G1 | ? name1 mk1 s1 suf1 Hin1 N1]; subst;
    inversion H2 as [| | ? name2 salt2 s2 Hin2 G2 | ? name2 mk2 s2 suf2 Hin2 N2]; subst.
    + assert (Hq : (name1, (MHid salt1, s1)) = (name2, (MHid salt2, s2))).
      { eapply (NoDup_flat_map_same (hdigs_mem H enc)); eauto; cbn; auto. }
      injection Hq as -> _ _. reflexivity.
    + exfalso. pose proof (NodePath_hdigs _ _ _ N2) as G2.
      assert (Hq : (name1, (MHid salt1, s1)) = (name2, (mk2, s2))).
      { eapply (NoDup_flat_map_same (hdigs_mem H enc)); eauto; [cbn; left; reflexivity|destruct mk2; cbn; auto]. }
      injection Hq as <- <- <-.
      assert (Hn1 : NoDup (hdigs_mem H enc (name1, (MHid salt1, s1)))) by (eapply NoDup_flat_map_in; eauto).
      cbn in Hn1. inversion Hn1; subst. contradiction.
    + exfalso. pose proof (NodePath_hdigs _ _ _ N1) as G1.
      assert (Hq : (name2, (MHid salt2, s2)) = (name1, (mk1, s1))).
      { eapply (NoDup_flat_map_same (hdigs_mem H enc)); eauto; [cbn; left; reflexivity|destruct mk1; cbn; auto]. }
      injection Hq as <- <- <-.
      assert (Hn1 : NoDup (hdigs_mem H enc (name2, (MHid salt2, s2)))) by (eapply NoDup_flat_map_in; eauto).
      cbn in Hn1. inversion Hn1; subst. contradiction.
    + pose proof (NodePath_hdigs _ _ _ N1) as G1. pose proof (NodePath_hdigs _ _ _ N2) as G2.
      assert (Hq : (name1, (mk1, s1)) = (name2, (mk2, s2))).
      { apply (NoDup_flat_map_same (hdigs_mem H enc) mems _ _ g Hndh Hin1 Hin2); [destruct mk1; cbn; auto|destruct mk2; cbn; auto]. }
      injection Hq as <- <- <-. f_equal. f_equal.
      rewrite Forall_forall in IH. apply (IH (name1, (mk1, s1)) Hin1); [|assumption|assumption].
      assert (Hn1 : NoDup (hdigs_mem H enc (name1, (mk1, s1)))) by (eapply NoDup_flat_map_in; eauto).
      destruct mk1; cbn in Hn1; [assumption|inversion Hn1; assumption|assumption].
Qed.

Variable t : atree.
Hypothesis Hwf : wf t.
Hypothesis Hnd : NoDup (alldigs t).
Hypothesis Hndh : NoDup (hdigs t).
Hypothesis Hheight : aheight t <= 129.

(* all disclosures presented: each is reported exactly once, with the path of its node *)
Theorem restore_full_all_paths L ds :
  NoDup L -> (forall s, In s L -> In (H s) (alldigs t) -> In (H s) (hdigs t)) ->
  decode_all H dec L = Ok ds ->
  (forall g, In g (hdigs t) -> In g (map d_digest ds)) ->
  (forall d, In d ds -> In (d_digest d) (hdigs t)) ->
  exists ps, restore_disclosures H dec show_nat (blind t) L = Ok (view (ownS H L) t, ps) /\
    Permutation (map snd ps) ds /\
    Forall (fun pd : dpath => NodePath (d_digest (snd pd)) t (fst pd)) ps.
Proof.
  intros HndL Hdecoy Ed Hall Hown.
  destruct (restore_full_ok_paths H enc dec show_nat hash_inj dec_enc t Hwf Hnd Hndh Hheight L ds HndL Hdecoy Ed)
    as (ps & Hps & Hpl & Hndp & Rf & Hgrow & Hnoex & Hsub).
  exists ps. split; [assumption|]. split; [|eapply Forall_impl; [|exact Hpl]; intros pd [_ Hnp]; exact Hnp].
  destruct (decode_all_spec H enc dec hash_inj dec_enc t Hwf L ds Ed Hdecoy) as [Hm _].
  assert (Hndd : NoDup (map d_digest ds)).
  { rewrite Hm. clear -HndL hash_inj. induction HndL as [|s r Hni _ IH]; cbn; constructor; [|assumption].
    intros Hin. apply in_map_iff in Hin as [s' [Hq Hs']]. apply hash_inj in Hq. subst. contradiction. }
  assert (Hndps : NoDup (map snd ps)).
  { clear -Hndp. assert (Hq : map pdig ps = map d_digest (map snd ps)) by (rewrite map_map; reflexivity).
    rewrite Hq in Hndp. eapply NoDup_map_inv. exact Hndp. }
  assert (Hndds : NoDup ds) by (eapply NoDup_map_inv; exact Hndd).
  apply NoDup_Permutation; [assumption|assumption|]. intros d. split.
  - intros Hin. apply in_map_iff in Hin as [pd [<- Hpd]]. rewrite Forall_forall in Hpl. exact (proj1 (Hpl _ Hpd)).
  - intros Hd.
    assert (HRf : Rf (d_digest d) = true).
    { apply (all_opened Rf (own ds) t Hwf Hnoex).
      - intros g Hg. apply Hall in Hg. apply in_map_iff in Hg as [d' [<- Hd']]. apply own_in. assumption.
      - apply Hown. assumption. }
    apply Hgrow in HRf. apply in_map_iff in HRf as [pd [Hq Hpd]]. rewrite Forall_forall in Hpl.
    destruct (Hpl _ Hpd) as [Hin _]. unfold pdig in Hq.
    assert (Heq : snd pd = d).
    { generalize (snd pd) Hin Hq. clear -Hndd Hd. intros e Hin Hq.
      induction ds as [|x r IH]; [destruct Hd|]. cbn in Hndd. inversion Hndd as [|? ? Hni Hr]; subst.
      destruct Hin as [Hin|Hin], Hd as [Hd|Hd].
      - congruence.
      - exfalso. apply Hni. subst x. rewrite Hq. apply in_map. assumption.
      - exfalso. apply Hni. subst x. rewrite <- Hq. apply in_map. assumption.
      - auto. }
    rewrite <- Heq. apply in_map. assumption.
Qed.
End P.
