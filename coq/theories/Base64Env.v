(* The disclosure encoding of the library as a composition: JSON text of the array (serde_json, an oracle pair
   ser / parse with parse (ser ps) = Some (JArr ps)) followed by base64url without padding (Base64.v, proved).
   With it the two premises about the encoding that the entry-point theorems carry - "decoding inverts encoding" and
   "an encoded disclosure contains no '~'" - are theorems; what remains assumed of the text layer is that JSON
   parsing inverts JSON printing. *)
From Coq Require Import List String Ascii Bool Arith.
Import ListNotations.
Require Import SDJ.Json SDJ.Model2 SDJ.Restore2 SDJ.Split SDJ.Base64.
Local Open Scope string_scope.

Lemma all_chars_no_tilde s : all_chars separator_free s = true -> Split.contains Split.tilde s = false.
Proof.
  induction s as [|c r IH]; intros H; [reflexivity|]. cbn [all_chars] in H. apply andb_true_iff in H as [Hc Hr].
  cbn [Split.contains]. rewrite (IH Hr), orb_false_r. unfold separator_free in Hc. apply andb_true_iff in Hc as [Ht _].
  unfold Split.tilde. destruct (Ascii.eqb c "~"); [discriminate|reflexivity].
Qed.

Lemma all_chars_no_dot s : all_chars separator_free s = true -> Split.contains "."%char s = false.
Proof.
  induction s as [|c r IH]; intros H; [reflexivity|]. cbn [all_chars] in H. apply andb_true_iff in H as [Hc Hr].
  cbn [Split.contains]. rewrite (IH Hr), orb_false_r. unfold separator_free in Hc. apply andb_true_iff in Hc as [_ Hd].
  destruct (Ascii.eqb c "."); [discriminate|reflexivity].
Qed.

Section Env.
Variable ser : list json -> string.
Variable parse : string -> option json.
Hypothesis parse_ser : forall ps, parse (ser ps) = Some (JArr ps).

Definition enc64 (ps : list json) : string := Base64.encode (ser ps).
Definition dec64 (s : string) : dec_result :=
  match Base64.decode s with
  | Some t => match parse t with Some j => DJson j | None => DErr end
  | None => DErr end.

Theorem dec64_enc64 ps : dec64 (enc64 ps) = DJson (JArr ps).
Proof. unfold dec64, enc64. rewrite decode_encode, parse_ser. reflexivity. Qed.

Theorem enc64_tilde_free ps : Split.contains Split.tilde (enc64 ps) = false.
Proof. apply all_chars_no_tilde, encode_separator_free. Qed.

Theorem enc64_dot_free ps : Split.contains "."%char (enc64 ps) = false.
Proof. apply all_chars_no_dot, encode_separator_free. Qed.

Theorem enc64_injective a b : enc64 a = enc64 b -> a = b.
Proof.
  unfold enc64. intros E. apply encode_injective in E. apply (f_equal parse) in E. rewrite !parse_ser in E.
  injection E as E. exact E.
Qed.
End Env.

(* ---- the C01 entry-point theorem with the encoding premises discharged ---- *)
Require Import SDJ.Wire SDJ.Out SDJ.ATree SDJ.T2c SDJ.T2h SDJ.T1e SDJ.T1j SDJ.Issuer1 SDJ.Issuer2 SDJ.T1k SDJ.T1m SDJ.Verify SDJ.T1p.
From Coq Require Import ZArith.

Theorem encode_then_holder_verify_b64 :
  forall (ser : list json -> string) (parse : string -> option json),
  (forall ps, parse (ser ps) = Some (JArr ps)) ->
  forall (E : issue_env) (O : oracles),
  ie_enc E = enc64 ser -> o_dec O = dec64 parse ->
  (forall x y, ie_hash E x = ie_hash E y -> x = y) ->
  o_hash O SHA256 = ie_hash E ->
  (forall h p j, ie_sign E h p = Val j -> o_jwt O j = Val (h, p)) ->
  (forall h p, exists j, ie_sign E h p = Val j /\ Split.contains Split.tilde j = false) ->
  (forall xs, Permutation.Permutation (ie_perm E xs) xs) ->
  forall (ckvs : list (string * json)) (paths : list string) tks (t' : atree)
         (max_decoys : option Z) (cnf : option json) (header : json),
  jwf (JObj ckvs) -> ~ In "_sd_alg" (map fst ckvs) -> ~ In "cnf" (map fst ckvs) ->
  NoDup (ie_salts E) -> paths <> [] -> split_paths paths = Some tks ->
  T1j.mark_fold (ie_hash E) (ie_enc E) Issuer2.parse_index Issuer2.parse_usize (ie_pos E) (embed (JObj ckvs)) tks (ie_salts E) = Some t' ->
  NoDup (decoys_used E max_decoys) ->
  (forall g, In g (decoys_used E max_decoys) -> ~ In g (alldigs (ie_hash E) (ie_enc E) t')) ->
  (match cnf with Some c => jwf c /\ S (aheight (embed c)) <= 129 | None => True end) ->
  aheight t' <= 129 ->
  exists token payload ds ps,
    issue E (JObj ckvs) paths max_decoys cnf header = Val (token, payload, ds) /\
    holder_verify O token = Val (header, match cnf with Some c => JObj (obj_insert "cnf" c ckvs) | None => JObj ckvs end, ps).
Proof.
  intros ser parse Hps E O Henc Hdec Hinj Hh Hjwt Hsign Hperm.
  apply encode_then_holder_verify; try assumption.
  - intros ps. rewrite Henc, Hdec. apply dec64_enc64. exact Hps.
  - intros ps. rewrite Henc. apply enc64_tilde_free.
Qed.
