From Coq Require Import List String Ascii Bool Arith Lia Permutation.
Import ListNotations.
Require Import SDJ.Json SDJ.Model2.
Local Open Scope string_scope.

(* BTreeMap::remove *)
Fixpoint obj_remove (k : string) (kvs : list (string * json)) : list (string * json) :=
  match kvs with
  | [] => []
  | (k', v') :: r => if String.eqb k k' then r else (k', v') :: obj_remove k r
  end.

Fixpoint list_set {A} (i : nat) (x : A) (l : list A) : list A :=
  match l, i with
  | [], _ => []
  | _ :: r, O => x :: r
  | y :: r, S i => y :: list_set i x r
  end.

(* Vec::insert(n, x) with n clipped to the length *)
Definition insert_at {A} (n : nat) (x : A) (l : list A) : list A := (firstn n l ++ x :: skipn n l)%list.

Lemma insert_at_map {A B} (f : A -> B) n x l : map f (insert_at n x l) = insert_at n (f x) (map f l).
Proof. unfold insert_at. rewrite map_app, firstn_map, skipn_map. reflexivity. Qed.
Lemma in_insert_at {A} n (x y : A) l : In y (insert_at n x l) <-> y = x \/ In y l.
Proof.
  unfold insert_at. rewrite in_app_iff. cbn [In].
  assert (Hl : In y l <-> In y (firstn n l) \/ In y (skipn n l)).
  { rewrite <- in_app_iff, firstn_skipn. reflexivity. }
  rewrite Hl. split; [intros [H|[H|H]]; auto|intros [H|[H|H]]; auto].
Qed.

Lemma perm_insert_at {A} n (x : A) l : Permutation.Permutation (insert_at n x l) (x :: l).
Proof.
  unfold insert_at. rewrite <- (firstn_skipn n l) at 3. symmetry. apply Permutation.Permutation_middle.
Qed.

Section Issuer.
Variable H : string -> string.
Variable enc : list json -> string.
Variable parse_index : string -> option nat.   (* serde_json pointer grammar for array tokens *)
Variable parse_usize : string -> option nat.   (* Rust usize::from_str *)
Variable pos : string -> nat.                  (* position at which a new digest is inserted into its _sd array *)

Definition mk_disc (salt : json) (key : option string) (v : json) : disc :=
  let s := enc (match key with Some k => [salt; JStr k; v] | None => [salt; v] end) in
  {| d_str := s; d_digest := H s; d_key := key; d_val := v |}.

Definition placeholder_json (g : string) : json := JObj [("...", JStr g)].

(* Value::get("...").is_some() on an array element: what is left of an element that an earlier path made
   disclosable is its placeholder (repair F20) *)
Definition has_dots (v : json) : bool :=
  match v with JObj kvs => match obj_get "..." kvs with Some _ => true | None => false end | _ => false end.

(* last step of build_disclosure, on the parent node *)
Definition disclose_here (key : string) (salt : json) (parent : json) : res (json * disc) :=
  match parent with
  | JArr xs =>
      match parse_usize key with
      | None => Err
      | Some i =>
          match nth_error xs i with
          | None => Err                                   (* repaired: was a panic in Vec::remove *)
          | Some v => if has_dots v then Err else
                      let d := mk_disc salt None v in
                      Ok (JArr (list_set i (placeholder_json (d_digest d)) xs), d)
          end
      end
  | JObj kvs =>
      match obj_get key kvs with
      | None => Err
      | Some v =>
          if String.eqb key "_sd" || String.eqb key "..." then Err
          else
            let d := mk_disc salt (Some key) v in
            let kvs1 := obj_remove key kvs in
            match obj_get "_sd" kvs1 with
            | Some (JArr ds) => Ok (JObj (obj_insert "_sd" (JArr (insert_at (pos (d_digest d)) (JStr (d_digest d)) ds)) kvs1), d)
            | Some _ => Err
            | None => Ok (JObj (obj_insert "_sd" (JArr [JStr (d_digest d)]) kvs1), d)
            end
      end
  | _ => Err
  end.

(* Value::pointer_mut followed by the in-place edit, as a functional update *)
Fixpoint update_at {A} (toks : list string) (f : json -> res (json * A)) (j : json) : res (json * A) :=
  match toks with
  | [] => f j
  | tok :: rest =>
      match j with
      | JObj kvs =>
          match obj_get tok kvs with
          | Some v => do (v', a) <- update_at rest f v; Ok (JObj (obj_insert tok v' kvs), a)
          | None => Err end
      | JArr xs =>
          match parse_index tok with
          | Some i => match nth_error xs i with
                      | Some v => do (v', a) <- update_at rest f v; Ok (JArr (list_set i v' xs), a)
                      | None => Err end
          | None => Err end
      | _ => Err
      end
  end.

Definition build_disclosure (claims : json) (parent_toks : list string) (key : string) (salt : json) : res (json * disc) :=
  update_at parent_toks (disclose_here key salt) claims.
End Issuer.
