From Coq Require Import List String Ascii Bool Arith Lia Sorting.Sorted.
Import ListNotations.
Require Import SDJ.Json SDJ.Model2 SDJ.ATree SDJ.T2a SDJ.T2b SDJ.T2c SDJ.T2d SDJ.T2e SDJ.Issuer1 SDJ.T1a SDJ.T1b SDJ.T1c SDJ.T1d.
Local Open Scope string_scope.

(* well-formed claims: keys strictly sorted (BTreeMap), no reserved names anywhere *)
Inductive jwf : json -> Prop :=
| jwf_null : jwf JNull
| jwf_bool b : jwf (JBool b)
| jwf_num l : jwf (JNum l)
| jwf_str s : jwf (JStr s)
| jwf_arr xs : Forall jwf xs -> jwf (JArr xs)
| jwf_obj kvs : StronglySorted slt (map fst kvs) ->
                Forall (fun kv => fst kv <> "_sd" /\ fst kv <> "..." /\ jwf (snd kv)) kvs -> jwf (JObj kvs).

Fixpoint embed (j : json) : atree :=
  match j with
  | JArr xs => AArr (map (fun x => (IPlain, embed x)) xs)
  | JObj kvs => AObj (map (fun kv => let '(k, v) := kv in (k, (MPlain, embed v))) kvs)
  | _ => ALeaf j
  end.

Section T1e.
Variable H : string -> string.
Variable enc : list json -> string.
Notation blind := (blind H enc).
Notation wf := (wf H enc).
Notation hdigs := (hdigs H enc).
Notation alldigs := (alldigs H enc).

Lemma blind_embed : forall j, blind (embed j) = j.
Proof.
  induction j as [| | | | xs IH | kvs IH] using json_ind'; try reflexivity.
  - cbn. f_equal. rewrite map_map. rewrite <- (map_id xs) at 2. apply map_ext_in. intros x Hx.
    rewrite Forall_forall in IH. auto.
  - cbn. f_equal. induction kvs as [|[k v] r IHr]; [reflexivity|]. cbn. inversion IH; subst. cbn in *. f_equal; [f_equal; assumption|auto].
Qed.

Lemma hdigs_embed : forall j, hdigs (embed j) = [].
Proof.
  induction j as [| | | | xs IH | kvs IH] using json_ind'; try reflexivity.
  - cbn. induction xs as [|x r IHr]; [reflexivity|]. inversion IH; subst. cbn. rewrite H2. cbn. auto.
  - cbn. induction kvs as [|[k v] r IHr]; [reflexivity|]. inversion IH; subst. cbn in *. rewrite H2. cbn. auto.
Qed.

Lemma alldigs_embed : forall j, alldigs (embed j) = [].
Proof.
  induction j as [| | | | xs IH | kvs IH] using json_ind'; try reflexivity.
  - cbn. induction xs as [|x r IHr]; [reflexivity|]. inversion IH; subst. cbn. rewrite H2. cbn. auto.
  - cbn. induction kvs as [|[k v] r IHr]; [reflexivity|]. inversion IH; subst. cbn in *. rewrite H2. cbn. auto.
Qed.

Lemma wf_embed : forall j, jwf j -> wf (embed j).
Proof.
  induction j as [| | | | xs IH | kvs IH] using json_ind'; intros Hj; try (constructor; exact I).
  - inversion Hj as [| | | | ? Hall |]; subst. cbn. constructor.
    + apply Forall_forall. intros [k s] Hin. apply in_map_iff in Hin as [x [Hq Hx]]. injection Hq as <- <-. cbn.
      rewrite Forall_forall in IH, Hall. auto.
    + apply Forall_forall. intros [k s] Hin. apply in_map_iff in Hin as [x [Hq Hx]]. injection Hq as <- <-. exact I.
  - inversion Hj as [| | | | | ? Hs Hall]; subst. cbn. constructor.
    + rewrite map_map. erewrite map_ext; [exact Hs|]. intros [k v]. reflexivity.
    + apply Forall_forall. intros [k [mk s]] Hin. apply in_map_iff in Hin as [[k' v] [Hq Hx]]. injection Hq as <- <- <-. cbn.
      rewrite Forall_forall in IH, Hall. apply (IH _ Hx). apply (Hall _ Hx).
    + apply Forall_forall. intros [k [mk s]] Hin. apply in_map_iff in Hin as [[k' v] [Hq Hx]]. injection Hq as <- <- <-. cbn.
      rewrite Forall_forall in Hall. specialize (Hall _ Hx). cbn in Hall. tauto.
Qed.
End T1e.
