(* Repetitions in the presented list: a disclosure whose node is already opened is either invisible (array
   element: the placeholder is gone) or makes the whole restoration fail (object member: the name is taken).
   Hence for ANY list - no duplicate-freeness assumed - restore_disclosures rejects or returns the view of
   the presented set. *)
From Coq Require Import List String Ascii Bool Arith Lia Sorting.Sorted.
Import ListNotations.
Require Import SDJ.Json SDJ.Model2 SDJ.Restore2 SDJ.ATree SDJ.T2a SDJ.T2b SDJ.T2c SDJ.T2d SDJ.T2e SDJ.T2f SDJ.T2g SDJ.T2i SDJ.T2j SDJ.T2k SDJ.T2l SDJ.T2m.
Local Open Scope string_scope.

Lemma walk_err {A D} (f : A -> res (A * list (dpath_ D) * bool)) l1 x l2 :
  (forall y, In y l1 -> f y = Ok (y, [], false)) -> f x = Err -> walk f (l1 ++ x :: l2) = Err.
Proof. intros H1 Hx. rewrite walk_app, (walk_id f l1 H1). cbn [bind walk]. rewrite Hx. reflexivity. Qed.

Lemma walki_err {A D} (f : nat -> A -> res (A * list (dpath_ D) * bool)) l1 x l2 : forall i,
  (forall j y, In y l1 -> f j y = Ok (y, [], false)) -> f (i + List.length l1) x = Err -> walki f i (l1 ++ x :: l2) = Err.
Proof.
  induction l1 as [|y r IH]; intros i H1 Hx.
  - cbn in *. rewrite Nat.add_0_r in Hx. rewrite Hx. reflexivity.
  - cbn [app walki]. rewrite H1 by (left; reflexivity). cbn [bind].
    rewrite (IH (S i)); [reflexivity|intros; apply H1; right; assumption|].
    cbn [List.length] in Hx. rewrite Nat.add_succ_r in Hx. exact Hx.
Qed.

Section Q.
Variable H : string -> string.
Variable enc : list json -> string.
Variable show_nat : nat -> string.
Notation blind := (blind H enc).
Notation view := (view H enc).
Notation dig_item := (dig_item H enc).
Notation dig_mem := (dig_mem H enc).
Notation hdigs := (hdigs H enc).
Notation alldigs := (alldigs H enc).
Notation wf := (wf H enc).
Notation vitem R := (ATree.view_item H enc (view R) R).
Notation vmem R := (ATree.view_mem H enc (view R) R).
Notation restore1 := (restore1 show_nat).
Notation hdigs_item := (hdigs_item H enc).
Notation hdigs_mem := (hdigs_mem H enc).
Notation adigs_item := (adigs_item H enc alldigs).
Notation adigs_mem := (adigs_mem alldigs).
Notation Exposed := (Exposed H enc).
Notation closedR := (closedR H enc).
Notation IsNode := (IsNode H enc).
Notation iopened := (iopened H enc).
Notation mopened := (mopened H enc).

(* the hidden member g is opened, and so is everything above it: its digest is still listed in the view *)
Inductive OpenedMem (R : Rset) (g : string) (k : option string) (v : json) : atree -> Prop :=
| om_here mems name salt s :
    In (name, (MHid salt, s)) mems -> g = dig_mem salt name s -> R g = true -> k = Some name -> v = blind s ->
    OpenedMem R g k v (AObj mems)
| om_item_in items ik s :
    In (ik, s) items -> iopened R (ik, s) = Some true -> OpenedMem R g k v s -> OpenedMem R g k v (AArr items)
| om_mem_in mems name mk s :
    In (name, (mk, s)) mems -> mopened R (name, (mk, s)) = Some true -> OpenedMem R g k v s -> OpenedMem R g k v (AObj mems).

Lemma OpenedMem_IsNode R g k v t : OpenedMem R g k v t -> IsNode g k v t.
Proof. induction 1; [eapply in_mem_here|eapply in_item_in|eapply in_mem_in]; eauto. Qed.

(* presenting the disclosure of such a member again is an error *)
Theorem restore1_opened_err : forall t, wf t -> forall n R g k v d,
  NoDup (alldigs t) -> NoDup (hdigs t) -> aheight t <= n ->
  OpenedMem R g k v t -> d_digest d = g -> d_key d = k ->
  forall path, restore1 n d path (view R t) = Err.
Proof.
  induction t as [j | items IH | mems IH] using atree_ind'; intros Hwf.
  - intros n R g k v d Hnd Hndh Hh Hom. inversion Hom.
  - inversion Hwf as [| ? Hall Hiok |]; subst.
    intros n R g k v d Hnd Hndh Hh Hom Hdg Hdk path.
    rewrite aheight_arr in Hh. destruct n as [|n]; [lia|]. apply le_S_n in Hh.
    rewrite alldigs_arr in Hnd. rewrite (hdigs_arr H enc) in Hndh.
    inversion Hom as [| ? ik s Hin Hop Hs |]; subst.
    destruct (in_split _ _ Hin) as (pre & post & Hsplit).
    assert (Hws : wf s) by (rewrite Forall_forall in Hall; exact (Hall _ Hin)).
    assert (Hgh : In (d_digest d) (hdigs s)) by (eapply (IsNode_hdigs H enc); eapply OpenedMem_IsNode; eauto).
    assert (Hga : In (d_digest d) (adigs_item (ik, s))).
    { pose proof (hdigs_alldigs H enc s Hws _ Hgh). destruct ik; cbn; auto. cbn in Hop. discriminate. }
    assert (Hvi : vitem R (ik, s) = view R s).
    { destruct ik as [|salt|g0]; cbn in Hop |- *; [reflexivity| |discriminate]. injection Hop as ->. reflexivity. }
    assert (Hsub : forall p, restore1 n d p (view R s) = Err).
    { rewrite Forall_forall in IH. specialize (IH _ Hin). cbn in IH.
      assert (Hn1 : NoDup (alldigs s)).
      { pose proof (NoDup_flat_map_in adigs_item _ _ Hnd Hin) as Hn1. destruct ik; cbn in Hn1; [assumption|inversion Hn1; assumption|].
        cbn in Hop. discriminate. }
      assert (Hn2 : NoDup (hdigs s)).
      { pose proof (NoDup_flat_map_in hdigs_item _ _ Hndh Hin) as Hn2. destruct ik; cbn in Hn2; [assumption|inversion Hn2; assumption|assumption]. }
      assert (Hhs : aheight s <= n).
      { pose proof (hmax_in item_h _ _ Hin) as Hm. unfold item_h in Hm. destruct ik; lia. }
      intros p. eapply IH; eauto. }
    assert (Hothers : forall y, In y (pre ++ post) ->
       forall i, arr_body show_nat (restore1 n d) d path i (vitem R y) = Ok (vitem R y, [], false)).
    { intros y Hy.
      assert (Hyin : In y items) by (rewrite Hsplit; apply in_app_or in Hy as [|]; apply in_or_app; [left|right; right]; assumption).
      rewrite Forall_forall in Hall, Hiok.
      assert (Hng : ~ In (d_digest d) (adigs_item y)).
      { rewrite Hsplit in Hnd. eapply (NoDup_flat_map_other adigs_item pre (ik, s) post); eauto. }
      intros i. apply arr_body_no_occ.
      + apply (sdwf_vitem H enc). auto.
      + destruct (occurs (d_digest d) (vitem R y)) eqn:E; [|reflexivity]. exfalso. apply Hng. eapply (occurs_vitem H enc); eauto.
      + intros p. apply restore1_no_occ.
        * apply (sdwf_vitem H enc). auto.
        * destruct (occurs (d_digest d) (vitem R y)) eqn:E; [|reflexivity]. exfalso. apply Hng. eapply (occurs_vitem H enc); eauto.
        * pose proof (height_vitem H enc R y (Hall _ Hyin)). pose proof (hmax_in (item_h) _ _ Hyin). unfold item_h in *. lia. }
    cbn [Model2.restore1]. rewrite (view_arr H enc), Hsplit, map_app. cbn [map].
    rewrite (walki_err (arr_body show_nat (restore1 n d) d path) (map (vitem R) pre) (vitem R (ik, s)) (map (vitem R) post) 0); [reflexivity| |].
    + intros j y Hy. apply in_map_iff in Hy as [y0 [<- Hy0]]. apply Hothers. apply in_or_app. left. assumption.
    + unfold arr_body. rewrite Hvi. rewrite (placeholder_of_view H enc) by assumption. cbn [bind]. rewrite Hsub. reflexivity.
  - inversion Hwf as [| | ? Hs Hall Hok]; subst.
    intros n R g k v d Hnd Hndh Hh Hom Hdg Hdk path.
    rewrite aheight_obj in Hh. destruct n as [|n]; [lia|]. apply le_S_n in Hh.
    rewrite alldigs_obj in Hnd. rewrite (hdigs_obj H enc) in Hndh.
    assert (Hnames : Forall mem_names_ok mems).
    { rewrite Forall_forall in Hok |- *. intros [name [mk s]] Hm. specialize (Hok _ Hm). unfold mem_names_ok. cbn in *.
      destruct mk; tauto. }
    assert (Hkeys : NoDup (map fst (flat_map (vmem R) mems))) by (apply ssorted_nodup, (ssorted_vmems H enc); assumption).
    inversion Hom as [? name salt s Hin Hg HRg Hk Hv | | ? name mk s Hin Hop Hs']; subst.
    + (* the member itself: its digest is listed in _sd and its name is present *)
      assert (Hmok : In (dig_mem salt name s) (sd_of mems)).
      { rewrite Forall_forall in Hok. specialize (Hok _ Hin). cbn in Hok. tauto. }
      unfold sd_of in Hmok. apply in_flat_map in Hmok as [[ny [mky sy]] [Hy Hgl]]. cbn in Hgl.
      destruct mky as [| |l]; try destruct Hgl.
      assert (Hny : ny = "_sd") by (rewrite Forall_forall in Hok; specialize (Hok _ Hy); cbn in Hok; tauto). subst ny.
      cbn [Model2.restore1]. rewrite (view_obj H enc). unfold sd_step.
      rewrite (obj_get_unique "_sd" (JArr (map JStr l))); [|assumption|].
      * cbn [sd_contains bind]. rewrite Hg, (existsb_strs_in _ _ Hgl). rewrite Hk.
        rewrite (obj_get_unique name (view R s)); [reflexivity|assumption|].
        apply in_flat_map. exists (name, (MHid salt, s)). split; [assumption|]. cbn. rewrite <- Hg, HRg. left. reflexivity.
      * apply in_flat_map. exists ("_sd", (MSd l, sy)). split; [assumption|]. left. reflexivity.
    + (* deeper, inside a visible member *)
      destruct (in_split _ _ Hin) as (pre & post & Hsplit).
      assert (Hws : wf s) by (rewrite Forall_forall in Hall; exact (Hall _ Hin)).
      assert (Hgh : In (d_digest d) (hdigs s)) by (eapply (IsNode_hdigs H enc); eapply OpenedMem_IsNode; eauto).
      assert (Hga : In (d_digest d) (alldigs s)) by (apply hdigs_alldigs; assumption).
      assert (Hkind : mk = MPlain \/ exists salt, mk = MHid salt /\ R (dig_mem salt name s) = true).
      { destruct mk as [|salt|l]; cbn in Hop; [left; reflexivity| |discriminate]. injection Hop as Hop. right. eauto. }
      assert (Hvm : vmem R (name, (mk, s)) = [(name, view R s)]).
      { destruct mk as [|salt|l]; cbn in Hop |- *; [reflexivity| |discriminate]. injection Hop as ->. reflexivity. }
      assert (Hadm : In (d_digest d) (adigs_mem (name, (mk, s)))).
      { destruct Hkind as [->|(salt & -> & _)]; cbn; assumption. }
      assert (Hhdm : In (d_digest d) (hdigs_mem (name, (mk, s)))).
      { destruct Hkind as [->|(salt & -> & _)]; cbn; [assumption|right; assumption]. }
      assert (Hoth := mem_others H enc show_nat n d path R R mems pre (name, (mk, s)) post Hsplit Hall Hnames Hnd Hndh Hh
                        (or_introl Hadm) Hhdm (fun _ _ => eq_refl)).
      assert (HF : flat_map (vmem R) mems = (flat_map (vmem R) pre ++ (name, view R s) :: flat_map (vmem R) post)%list).
      { rewrite Hsplit, flat_map_app. cbn [flat_map]. rewrite Hvm. reflexivity. }
      assert (Hsd : sd_step d path (flat_map (vmem R) mems) = Ok (flat_map (vmem R) mems, [], false)).
      { unfold sd_step. destruct (obj_get "_sd" (flat_map (vmem R) mems)) as [sd|] eqn:Eg; [|reflexivity].
        apply obj_get_in in Eg. apply in_flat_map in Eg as [[ny [mky sy]] [Hy Hkv]].
        rewrite Forall_forall in Hnames. pose proof (Hnames _ Hy) as Hny. unfold mem_names_ok in Hny. cbn in Hny.
        destruct mky as [|salt|l]; cbn in Hkv.
        - destruct Hkv as [Hq|[]]. injection Hq as -> _. tauto.
        - destruct (R (dig_mem salt ny sy)); [|destruct Hkv]. destruct Hkv as [Hq|[]]. injection Hq as -> _. tauto.
        - destruct Hkv as [Hq|[]]. injection Hq as _ <-. cbn [sd_contains bind].
          destruct (existsb (fun x => json_eqb_str x (d_digest d)) (map JStr l)) eqn:Ec; [|reflexivity].
          exfalso. apply existsb_strs in Ec.
          assert (Hyo : In (ny, (MSd l, sy)) (pre ++ post)).
          { rewrite Hsplit in Hy. apply in_app_or in Hy as [|[Hq|]]; [apply in_or_app; left; assumption| |apply in_or_app; right; assumption].
            injection Hq as _ Hq _. destruct Hkind as [->|(salt & -> & _)]; discriminate. }
          rewrite Hsplit in Hnd.
          eapply (NoDup_flat_map_other adigs_mem pre (name, (mk, s)) post (d_digest d) Hnd Hadm _ Hyo). exact Ec. }
      assert (Hsub : forall p, restore1 n d p (view R s) = Err).
      { rewrite Forall_forall in IH. specialize (IH _ Hin). cbn in IH.
        assert (Hn1 : NoDup (alldigs s)).
        { pose proof (NoDup_flat_map_in adigs_mem _ _ Hnd Hin) as Hn1. destruct Hkind as [->|(salt & -> & _)]; cbn in Hn1; assumption. }
        assert (Hn2 : NoDup (hdigs s)).
        { pose proof (NoDup_flat_map_in hdigs_mem _ _ Hndh Hin) as Hn2. destruct Hkind as [->|(salt & -> & _)]; cbn in Hn2; [assumption|inversion Hn2; assumption]. }
        assert (Hhs : aheight s <= n).
        { pose proof (hmax_in mem_h _ _ Hin) as Hm. unfold mem_h in Hm. destruct Hkind as [->|(salt & -> & _)]; lia. }
        intros p. eapply IH; eauto. }
      cbn [Model2.restore1]. rewrite (view_obj H enc), Hsd. cbn [bind]. rewrite HF.
      rewrite (walk_err (obj_body (restore1 n d) path) (flat_map (vmem R) pre) (name, view R s) (flat_map (vmem R) post)); [reflexivity| |].
      * intros kv Hkv. apply in_flat_map in Hkv as [y [Hy0 Hkv]]. eapply Hoth; [apply in_or_app; left; exact Hy0|exact Hkv].
      * unfold obj_body. rewrite Hsub. reflexivity.
Qed.

(* a hidden node whose digest is visible in the view although it is already opened is an opened member *)
Theorem opened_cases R g : forall t, wf t -> NoDup (alldigs t) ->
  occurs g (view R t) = true -> In g (hdigs t) -> R g = true -> exists k v, OpenedMem R g k v t.
Proof.
  induction t as [j | items IH | mems IH] using atree_ind'; intros Hw Hnd Ho Hh HRg; [destruct Hh| |].
  - inversion Hw as [| ? Hall Hiok |]; subst. rewrite alldigs_arr in Hnd. rewrite (hdigs_arr H enc) in Hh.
    rewrite (view_arr H enc) in Ho. cbn [occurs] in Ho. rewrite existsb_map in Ho. apply existsb_exists in Ho as [[k s] [Hin Ho]].
    rewrite Forall_forall in IH, Hall, Hiok.
    assert (Hga : In g (adigs_item (k, s))) by (eapply (occurs_vitem H enc); eauto; apply (Hall _ Hin)).
    apply in_flat_map in Hh as [it' [Hin' Hgh']].
    assert (Hga' : In g (adigs_item it')) by (apply (hdigs_item_adigs H enc); auto; apply (Hall _ Hin')).
    assert (it' = (k, s)) by (eapply (NoDup_flat_map_same adigs_item); eauto). subst it'.
    specialize (IH _ Hin). cbn in IH. pose proof (Hall _ Hin) as Hws. cbn in Hws.
    pose proof (NoDup_flat_map_in adigs_item _ _ Hnd Hin) as Hn1.
    destruct k as [|salt|g0]; cbn in Ho, Hgh', Hn1.
    + destruct (IH Hws Hn1 Ho Hgh' HRg) as (k & v & Hom). exists k, v. eapply om_item_in; eauto.
    + inversion Hn1 as [|? ? Hni Hnds]; subst.
      destruct (R (dig_item salt s)) eqn:ER.
      * destruct Hgh' as [<-|Hgh'].
        -- exfalso. apply Hni. eapply occurs_view; eauto.
        -- destruct (IH Hws Hnds Ho Hgh' HRg) as (k & v & Hom). exists k, v. eapply om_item_in; eauto. cbn. rewrite ER. reflexivity.
      * cbn in Ho. rewrite !orb_false_r in Ho. apply String.eqb_eq in Ho. subst g. congruence.
    + specialize (Hiok _ Hin). unfold item_ok in Hiok. cbn in Hiok. subst s. destruct Hgh'.
  - inversion Hw as [| | ? Hs Hall Hok]; subst. rewrite alldigs_obj in Hnd. rewrite (hdigs_obj H enc) in Hh.
    rewrite (view_obj H enc), occurs_obj in Ho. apply existsb_exists in Ho as [[k' v'] [Hkv Ho]].
    apply in_flat_map in Hkv as [[name [mk s]] [Hin Hkv]].
    apply in_flat_map in Hh as [[name' [mk' s']] [Hin' Hgh']].
    rewrite Forall_forall in IH, Hall, Hok.
    pose proof (Hok _ Hin) as Hokm. pose proof (Hok _ Hin') as Hokm'. cbn in Hokm, Hokm'.
    assert (Hcase : (exists salt, mk' = MHid salt /\ g = dig_mem salt name' s') \/ In g (alldigs s')).
    { destruct mk' as [|salt|l]; cbn in Hgh'.
      - right. apply hdigs_alldigs; [apply (Hall _ Hin')|assumption].
      - destruct Hgh' as [<-|Hgh']; [left; eauto|right; apply hdigs_alldigs; [apply (Hall _ Hin')|assumption]].
      - destruct Hokm' as [_ [_ ->]]. destruct Hgh'. }
    destruct mk as [|salt|l]; cbn in Hkv.
    + destruct Hkv as [Hq|[]]. injection Hq as <- <-. unfold occ_mem in Ho.
      destruct (String.eqb_spec name "_sd"); [tauto|]. destruct (String.eqb_spec name "..."); [tauto|]. cbn in Ho.
      assert (Hga : In g (adigs_mem (name, (MPlain, s)))) by (cbn; eapply occurs_view; eauto; apply (Hall _ Hin)).
      destruct Hcase as [(salt' & -> & Hg)|Hga'].
      * exfalso. destruct Hokm' as [_ [_ Hsd]]. unfold sd_of in Hsd. apply in_flat_map in Hsd as [[ny [ky sy]] [Hy Hgl]]. cbn in Hgl.
        destruct ky as [| |l]; try destruct Hgl. rewrite <- Hg in Hgl.
        assert ((ny, (MSd l, sy)) = (name, (MPlain, s))) by (eapply (NoDup_flat_map_same adigs_mem); eauto). discriminate.
      * assert (Hq : (name', (mk', s')) = (name, (MPlain, s))).
        { eapply (NoDup_flat_map_same adigs_mem); eauto. destruct mk'; cbn; auto. destruct Hokm' as [_ [_ ->]]. destruct Hga'. }
        injection Hq as -> -> ->. cbn in Hgh'.
        assert (Hnds : NoDup (alldigs s)) by (apply (NoDup_flat_map_in adigs_mem _ _ Hnd Hin)).
        destruct (IH _ Hin (Hall _ Hin) Hnds Ho Hgh' HRg) as (k & v & Hom). exists k, v. eapply om_mem_in; eauto.
    + destruct (R (dig_mem salt name s)) eqn:ER; [|destruct Hkv].
      destruct Hkv as [Hq|[]]. injection Hq as <- <-. unfold occ_mem in Ho.
      destruct (String.eqb_spec name "_sd"); [tauto|]. destruct (String.eqb_spec name "..."); [tauto|]. cbn in Ho.
      assert (Hga : In g (adigs_mem (name, (MHid salt, s)))) by (cbn; eapply occurs_view; eauto; apply (Hall _ Hin)).
      destruct Hcase as [(salt' & -> & Hg)|Hga'].
      * exfalso. destruct Hokm' as [_ [_ Hsd]]. unfold sd_of in Hsd. apply in_flat_map in Hsd as [[ny [ky sy]] [Hy Hgl]]. cbn in Hgl.
        destruct ky as [| |l]; try destruct Hgl. rewrite <- Hg in Hgl.
        assert ((ny, (MSd l, sy)) = (name, (MHid salt, s))) by (eapply (NoDup_flat_map_same adigs_mem); eauto). discriminate.
      * assert (Hq : (name', (mk', s')) = (name, (MHid salt, s))).
        { eapply (NoDup_flat_map_same adigs_mem); eauto. destruct mk'; cbn; auto. destruct Hokm' as [_ [_ ->]]. destruct Hga'. }
        injection Hq as -> -> ->. cbn in Hgh'. destruct Hgh' as [Hq|Hgh'].
        -- (* the member's own digest cannot also be embedded below it *)
           exfalso. destruct Hokm as [_ [_ Hsd]]. unfold sd_of in Hsd. apply in_flat_map in Hsd as [[ny [ky sy]] [Hy Hgl]]. cbn in Hgl.
           destruct ky as [| |l]; try destruct Hgl. rewrite Hq in Hgl.
           assert ((ny, (MSd l, sy)) = (name, (MHid salt, s))) by (eapply (NoDup_flat_map_same adigs_mem); eauto). discriminate.
        -- assert (Hnds : NoDup (alldigs s)) by (apply (NoDup_flat_map_in adigs_mem _ _ Hnd Hin)).
           destruct (IH _ Hin (Hall _ Hin) Hnds Ho Hgh' HRg) as (k & v & Hom). exists k, v. eapply om_mem_in; eauto. cbn. rewrite ER. reflexivity.
    + destruct Hkv as [Hq|[]]. injection Hq as <- <-. destruct Hokm as [_ [-> _]]. unfold occ_mem in Ho.
      rewrite String.eqb_refl, occurs_strs, orb_false_r in Ho. apply existsb_strs in Ho.
      destruct Hcase as [(salt' & -> & Hg)|Hga'].
      * exists (Some name'), (blind s'). eapply om_here; eauto.
      * exfalso.
        assert (Hq : (name', (mk', s')) = ("_sd", (MSd l, s))).
        { eapply (NoDup_flat_map_same adigs_mem); eauto. destruct mk'; cbn; auto. destruct Hokm' as [_ [_ ->]]. destruct Hga'. }
        injection Hq as -> -> ->. destruct Hokm' as [_ [_ ->]]. destruct Hga'.
Qed.
End Q.

Section Q2.
Variable H : string -> string.
Variable enc : list json -> string.
Variable dec : string -> dec_result.
Variable show_nat : nat -> string.
Hypothesis hash_inj : forall x y, H x = H y -> x = y.
Hypothesis dec_enc : forall ps, dec (enc ps) = DJson (JArr ps).
Notation blind := (blind H enc).
Notation view := (view H enc).
Notation hdigs := (hdigs H enc).
Notation alldigs := (alldigs H enc).
Notation wf := (wf H enc).
Notation Exposed := (Exposed H enc).
Notation closedR := (closedR H enc).
Notation IsNode := (IsNode H enc).
Notation restore1 := (restore1 show_nat).
Notation pass := (pass show_nat).
Notation passes := (passes show_nat).
Notation ok_disc := (ok_disc H enc).

Variable t : atree.
Hypothesis Hwf : wf t.
Hypothesis Hnd : NoDup (alldigs t).
Hypothesis Hndh : NoDup (hdigs t).
Hypothesis Hheight : aheight t <= 129.

(* one disclosure whose digest is already opened: an error, or nothing happens *)
Lemma step_opened R d path :
  ok_disc t d -> R (d_digest d) = true ->
  restore1 129 d path (view R t) = Err \/ restore1 129 d path (view R t) = Ok (view R t, [], false).
Proof.
  intros Hok HR. destruct (occurs (d_digest d) (view R t)) eqn:Eo.
  - left. destruct Hok as [Hnode|Hfor]; [|exfalso; apply Hfor; eapply occurs_view; eauto].
    destruct (opened_cases H enc R (d_digest d) t Hwf Hnd Eo (IsNode_hdigs H enc _ _ _ _ Hnode) HR) as (k & v & Hom).
    destruct (IsNode_fun H enc _ _ _ _ _ _ Hndh (OpenedMem_IsNode H enc _ _ _ _ _ Hom) Hnode) as [-> ->].
    eapply (restore1_opened_err H enc show_nat t Hwf 129 R); eauto.
  - right. apply restore1_no_occ; [apply sdwf_view; assumption|assumption|].
    pose proof (height_view H enc R t Hwf). lia.
Qed.

Lemma pass_spec_any : forall todo R ps,
  closedR R t -> (forall d, In d todo -> ok_disc t d) ->
  pass todo (view R t) ps = Err \/
  exists R' ps' rem b, pass todo (view R t) ps = Ok (view R' t, ps', rem, b) /\
    closedR R' t /\
    (forall g, R' g = true -> R g = true \/ In g (map d_digest todo)) /\
    (forall g, R g = true -> R' g = true) /\
    (forall d, In d todo -> In d rem \/ R' (d_digest d) = true) /\
    (forall d, In d rem -> In d todo) /\
    (b = false -> R' = R /\ rem = todo /\ forall d, In d todo -> ~ Exposed R (d_digest d) (d_key d) (d_val d) t) /\
    (b = true -> List.length rem < List.length todo).
Proof.
  induction todo as [|d r IH]; intros R ps Hc Hall.
  - right. exists R, ps, [], false. cbn. split; [reflexivity|]. split; [assumption|]. split; [auto|]. split; [auto|].
    split; [intros ? []|]. split; [intros ? []|]. split; [intros _; repeat split; auto; intros ? []|discriminate].
  - pose proof (Hall d (or_introl eq_refl)) as Hok. cbn [Model2.pass].
    destruct (R (d_digest d)) eqn:HRd.
    + (* already opened *)
      destruct (step_opened R d "" Hok HRd) as [He|Hr]; [left; rewrite He; reflexivity|].
      rewrite Hr. cbn [bind].
      destruct (IH R (ps ++ [])%list Hc (fun d' Hd' => Hall d' (or_intror Hd'))) as [He|(R' & ps' & rem & b & Hp & Hc' & Hsub & Hmono & Hcov & Hrem & Hb0 & Hb1)];
        [left; rewrite He; reflexivity|].
      right. rewrite Hp. cbn [bind]. exists R', ps', (d :: rem), b. cbn [orb]. split; [reflexivity|]. split; [assumption|].
      split; [intros g Hg; destruct (Hsub g Hg); [left|right; right]; assumption|].
      split; [assumption|].
      split; [intros d' [<-|Hd']; [left; left; reflexivity|destruct (Hcov d' Hd'); [left; right|right]; assumption]|].
      split; [intros d' [<-|Hd']; [left; reflexivity|right; auto]|].
      split.
      { intros ->. destruct (Hb0 eq_refl) as (-> & -> & Hne). repeat split; auto. intros d' [<-|Hd']; [|auto].
        intros Hex. pose proof (Exposed_R_false H enc _ _ _ _ _ Hex). congruence. }
      intros ->. specialize (Hb1 eq_refl). cbn. lia.
    + destruct (step_spec H enc show_nat t Hwf Hnd Hndh Hheight R d "" Hc Hok HRd) as [[Hr Hnex]|(p1 & Hr & Hc1 & Hex1 & _)].
      * rewrite Hr. cbn [bind].
        destruct (IH R (ps ++ [])%list Hc (fun d' Hd' => Hall d' (or_intror Hd'))) as [He|(R' & ps' & rem & b & Hp & Hc' & Hsub & Hmono & Hcov & Hrem & Hb0 & Hb1)];
          [left; rewrite He; reflexivity|].
        right. rewrite Hp. cbn [bind]. exists R', ps', (d :: rem), b. cbn [orb]. split; [reflexivity|]. split; [assumption|].
        split; [intros g Hg; destruct (Hsub g Hg); [left|right; right]; assumption|].
        split; [assumption|].
        split; [intros d' [<-|Hd']; [left; left; reflexivity|destruct (Hcov d' Hd'); [left; right|right]; assumption]|].
        split; [intros d' [<-|Hd']; [left; reflexivity|right; auto]|].
        split.
        { intros ->. destruct (Hb0 eq_refl) as (-> & -> & Hne). repeat split; auto. intros d' [<-|Hd']; auto. }
        intros ->. specialize (Hb1 eq_refl). cbn. lia.
      * rewrite Hr. cbn [bind].
        destruct (IH (Radd R (d_digest d)) (ps ++ [(p1, d)])%list Hc1 (fun d' Hd' => Hall d' (or_intror Hd')))
          as [He|(R' & ps' & rem & b & Hp & Hc' & Hsub & Hmono & Hcov & Hrem & Hb0 & Hb1)]; [left; rewrite He; reflexivity|].
        right. rewrite Hp. cbn [bind]. exists R', ps', rem, true. cbn [orb]. split; [reflexivity|]. split; [assumption|].
        split.
        { intros g Hg. destruct (Hsub g Hg) as [Ha|Hin]; [|right; right; assumption].
          unfold Radd in Ha. destruct (String.eqb_spec g (d_digest d)); [right; left; congruence|left; exact Ha]. }
        split; [intros g Hg; apply Hmono; apply Radd_mono; assumption|].
        split; [intros d' [<-|Hd']; [right; apply Hmono; apply Radd_same|apply Hcov; assumption]|].
        split; [intros d' Hd'; right; auto|].
        split; [discriminate|].
        intros _. destruct b.
        -- specialize (Hb1 eq_refl). cbn. lia.
        -- destruct (Hb0 eq_refl) as (_ & -> & _). cbn. lia.
Qed.

Variable L : list disc.
Hypothesis HLok : Forall (ok_disc t) L.
Notation own := (own L).

Lemma passes_spec_any : forall fuel pending R ps,
  List.length pending < fuel -> closedR R t ->
  (forall g, R g = true -> own g = true) -> (forall d, In d pending -> In d L) ->
  (forall d, In d L -> In d pending \/ R (d_digest d) = true) ->
  passes fuel pending (view R t) ps = Err \/ exists ps', passes fuel pending (view R t) ps = Ok (view own t, ps').
Proof.
  induction fuel as [|fuel IH]; intros pending R ps Hfuel Hc Hsubo HpL Hcover; [lia|].
  cbn [Model2.passes].
  assert (Hall : forall d, In d pending -> ok_disc t d).
  { intros d Hd. rewrite Forall_forall in HLok. auto. }
  destruct (pass_spec_any pending R ps Hc Hall) as [He|(R' & ps1 & rem & b & Hp & Hc' & Hsub & Hmono & Hcov & Hrem & Hb0 & Hb1)];
    [left; rewrite He; reflexivity|].
  rewrite Hp. cbn [bind].
  assert (Hsubo' : forall g, R' g = true -> own g = true).
  { intros g Hg. destruct (Hsub g Hg) as [|Hin]; [auto|]. apply in_map_iff in Hin as [d [<- Hd]]. apply own_in. auto. }
  assert (Hcover' : forall d, In d L -> In d rem \/ R' (d_digest d) = true).
  { intros d Hd. destruct (Hcover d Hd) as [Hdp|HRt]; [apply Hcov; assumption|right; apply Hmono; assumption]. }
  destruct (negb b || match rem with [] => true | _ :: _ => false end) eqn:Eexit.
  - right. exists ps1. f_equal. f_equal. apply (view_fix H enc).
    + intros g k v Hex. destruct (own g) eqn:Eo; [exfalso|reflexivity].
      apply own_inv in Eo as [d [Hd <-]].
      pose proof (Exposed_R_false H enc _ _ _ _ _ Hex) as HRf.
      destruct (Hcover' d Hd) as [Hdr|HRt]; [|congruence].
      apply orb_true_iff in Eexit as [Eb|Er].
      * apply negb_true_iff in Eb. destruct (Hb0 Eb) as (-> & -> & Hne).
        apply (Hne d Hdr).
        assert (Hnode : IsNode (d_digest d) (d_key d) (d_val d) t).
        { rewrite Forall_forall in HLok. destruct (HLok d Hd) as [|Hfor]; [assumption|]. exfalso. apply Hfor.
          apply hdigs_alldigs; [assumption|]. eapply (IsNode_hdigs H enc). eapply (Exposed_IsNode H enc). eassumption. }
        destruct (IsNode_fun H enc _ _ _ _ _ _ Hndh (Exposed_IsNode H enc _ _ _ _ _ Hex) Hnode) as [-> ->]. assumption.
      * destruct rem; [destruct Hdr|discriminate].
    + intros g _. apply Hsubo'.
  - apply orb_false_iff in Eexit as [Eb Er]. apply negb_false_iff in Eb.
    apply (IH rem R' ps1); auto.
    + specialize (Hb1 Eb). lia.
Qed.
End Q2.

Section Q3.
Variable H : string -> string.
Variable enc : list json -> string.
Variable dec : string -> dec_result.
Variable show_nat : nat -> string.
Hypothesis hash_inj : forall x y, H x = H y -> x = y.
Hypothesis dec_enc : forall ps, dec (enc ps) = DJson (JArr ps).
Variable t : atree.
Hypothesis Hwf : wf H enc t.
Hypothesis Hnd : NoDup (alldigs H enc t).
Hypothesis Hndh : NoDup (hdigs H enc t).
Hypothesis Hheight : aheight t <= 129.

(* C03 for arbitrary lists: any order, any repetitions, own / foreign / malformed strings *)
Theorem restore_any_spec (L : list string) :
  (forall s, In s L -> In (H s) (alldigs H enc t) -> In (H s) (hdigs H enc t)) ->
  restore_disclosures H dec show_nat (blind H enc t) L = Err \/
  exists ps, restore_disclosures H dec show_nat (blind H enc t) L = Ok (view H enc (ownS H L) t, ps).
Proof.
  intros Hdecoy. unfold restore_disclosures, restore_passes.
  destruct (decode_all H dec L) as [ds|] eqn:Ed; [|left; reflexivity]. cbn [bind].
  destruct (decode_all_spec H enc dec hash_inj dec_enc t Hwf L ds Ed Hdecoy) as [Hm HF].
  destruct (passes_spec_any H enc show_nat t Hwf Hnd Hndh Hheight ds HF (S (List.length ds)) ds R0 []) as [He|[ps' Hp]].
  - lia.
  - apply closedR_none. reflexivity.
  - discriminate.
  - auto.
  - auto.
  - left. rewrite <- (view_R0_blind H enc), He. reflexivity.
  - rewrite <- (view_R0_blind H enc), Hp. cbn [bind].
    destruct (insert_all (placed_item_digests ps') []) as [seen|]; [|left; reflexivity]. cbn [bind].
    destruct (check_digests 129 (view H enc (own ds) t) seen) as [seen'|]; [|left; reflexivity]. cbn [bind].
    right. exists ps'. f_equal. f_equal. apply view_ext. intros g _. apply own_ownS. assumption.
Qed.
End Q3.
