From Coq Require Import List String Ascii Bool Arith Lia Sorting.Sorted.
Import ListNotations.
Require Import SDJ.Json SDJ.Model2 SDJ.ATree SDJ.T2a SDJ.T2b SDJ.T2c SDJ.T2d SDJ.T2e SDJ.T2f SDJ.T2g SDJ.Restore2.
Local Open Scope string_scope.

Lemma flat_map_map' {A B C} (f : B -> list C) (g : A -> B) l : flat_map f (map g l) = flat_map (fun x => f (g x)) l.
Proof. induction l; cbn; congruence. Qed.
Lemma flat_map_flat_map {A B C} (f : B -> list C) (g : A -> list B) l :
  flat_map f (flat_map g l) = flat_map (fun x => flat_map f (g x)) l.
Proof. induction l as [|x r IH]; cbn; [reflexivity|]. rewrite flat_map_app, IH. reflexivity. Qed.

Section Hh.
Variable H : string -> string.
Variable enc : list json -> string.
Notation blind := (blind H enc).
Notation view := (view H enc).
Notation dig_item := (dig_item H enc).
Notation dig_mem := (dig_mem H enc).
Notation hdigs := (hdigs H enc).
Notation alldigs := (alldigs H enc).
Notation wf := (wf H enc).
Notation vitem R := (ATree.view_item H enc (view R) R).
Notation vmem R := (ATree.view_mem H enc (view R) R).

(* the property's projection: opened hidden nodes shown, everything else about SD removed *)
Fixpoint proj (R : Rset) (t : atree) : json :=
  match t with
  | ALeaf j => j
  | AArr items => JArr (flat_map (fun it => let '(k, s) := it in
        match k with
        | IPlain => [proj R s]
        | IHid salt => if R (dig_item salt s) then [proj R s] else []
        | IDecoy _ => [] end) items)
  | AObj mems => JObj (flat_map (fun m => let '(name, (k, s)) := m in
        match k with
        | MPlain => [(name, proj R s)]
        | MHid salt => if R (dig_mem salt name s) then [(name, proj R s)] else []
        | MSd _ => [] end) mems)
  end.

Lemma is_placeholder_view R s : wf s -> is_placeholder (view R s) = false.
Proof.
  intros Hw. pose proof (placeholder_of_view H enc R s Hw) as Hp. unfold placeholder_of in Hp. unfold is_placeholder.
  destruct (view R s); try reflexivity. destruct (obj_get "..." kvs); [|reflexivity].
  destruct (Nat.eqb (List.length kvs) 1); discriminate.
Qed.

Theorem strip_view R : forall t, wf t -> strip (view R t) = proj R t.
Proof.
  induction t as [j | items IH | mems IH] using atree_ind'; intros Hw.
  - inversion Hw; subst. destruct j; cbn in *; tauto || reflexivity.
  - inversion Hw as [| ? Hall Hiok |]; subst. rewrite view_arr. cbn [strip proj]. f_equal.
    rewrite flat_map_map'.
    apply flat_map_ext_in'. intros [k s] Hin.
    rewrite Forall_forall in IH, Hall. specialize (IH _ Hin (Hall _ Hin)). cbn in IH.
    destruct k as [|salt|g]; cbn [ATree.view_item].
    + rewrite is_placeholder_view by (apply (Hall _ Hin)). rewrite IH. reflexivity.
    + destruct (R (dig_item salt s)); [|reflexivity].
      rewrite is_placeholder_view by (apply (Hall _ Hin)). rewrite IH. reflexivity.
    + reflexivity.
  - inversion Hw as [| | ? Hs Hall Hok]; subst. rewrite view_obj. cbn [strip proj]. f_equal.
    rewrite flat_map_flat_map.
    apply flat_map_ext_in'. intros [name [k s]] Hin.
    rewrite Forall_forall in IH, Hall, Hok. specialize (IH _ Hin (Hall _ Hin)). specialize (Hok _ Hin). cbn in IH, Hok.
    destruct k as [|salt|l]; cbn [ATree.view_mem flat_map app].
    + destruct (String.eqb_spec name "_sd"); [tauto|]. rewrite IH. reflexivity.
    + destruct (R (dig_mem salt name s)); [|reflexivity]. cbn [flat_map app].
      destruct (String.eqb_spec name "_sd"); [tauto|]. rewrite IH. reflexivity.
    + destruct Hok as [_ [-> _]]. reflexivity.
Qed.
End Hh.
