From Coq Require Import List String Ascii Bool Arith Lia.
Import ListNotations.
Require Import SDJ.Json.
Open Scope string_scope.

Inductive res (A : Type) := Ok (a : A) | Err.
Arguments Ok {A} a. Arguments Err {A}.
Definition bind {A B} (x : res A) (f : A -> res B) : res B :=
  match x with Ok a => f a | Err => Err end.
Notation "'do' x <- e ; f" := (bind e (fun x => f)) (at level 200, x pattern, e at level 100, f at level 200).

Definition dpath_ (D : Type) := (string * D)%type.

(* a loop over a list that threads "paths found so far" and "anything restored" *)
Fixpoint walk {A D} (f : A -> res (A * list (dpath_ D) * bool)) (l : list A) : res (list A * list (dpath_ D) * bool) :=
  match l with
  | [] => Ok ([], [], false)
  | x :: r => do (x', ps, b) <- f x; do (r', ps', b') <- walk f r; Ok (x' :: r', (ps ++ ps')%list, orb b b')
  end.

Fixpoint walki {A D} (f : nat -> A -> res (A * list (dpath_ D) * bool)) (i : nat) (l : list A) : res (list A * list (dpath_ D) * bool) :=
  match l with
  | [] => Ok ([], [], false)
  | x :: r => do (x', ps, b) <- f i x; do (r', ps', b') <- walki f (S i) r; Ok (x' :: r', (ps ++ ps')%list, orb b b')
  end.

Record disc := { d_str : string; d_digest : string; d_key : option string; d_val : json }.
Definition dpath := dpath_ disc.

Definition json_eqb_str (v : json) (s : string) : bool :=
  match v with JStr s' => String.eqb s' s | _ => false end.

Definition sd_contains (sd : json) (g : string) : res bool :=
  match sd with
  | JArr xs => Ok (existsb (fun x => json_eqb_str x g) xs)
  | _ => Err
  end.

Fixpoint obj_insert (k : string) (v : json) (kvs : list (string * json)) : list (string * json) :=
  match kvs with
  | [] => [(k, v)]
  | (k', v') :: r =>
      match String.compare k k' with
      | Lt => (k, v) :: kvs
      | Eq => (k, v) :: r
      | Gt => (k', v') :: obj_insert k v r
      end
  end.

Definition placeholder_of (item : json) : res (option json) :=
  match item with
  | JObj kvs => match obj_get "..." kvs with
                | Some v => if Nat.eqb (List.length kvs) 1 then Ok (Some v) else Err
                | None => Ok None end
  | _ => Ok None
  end.

(* utils.rs::format_path: the key is escaped as a JSON pointer reference token (repair F17b) *)
Definition format_path (parent key : string) : string := parent ++ "/" ++ esc_tok key.

(* decimal rendering of an index is a parameter of the prototype *)
Section Restore.
Variable show_nat : nat -> string.

Definition sd_step (d : disc) (path : string) (kvs : list (string * json)) : res (list (string * json) * list dpath * bool) :=
  match obj_get "_sd" kvs with
  | Some sd =>
      do c <- sd_contains sd (d_digest d);
      if c then
        match d_key d with
        | Some k => match obj_get k kvs with
                    | Some _ => Err
                    | None => Ok (obj_insert k (d_val d) kvs, [(format_path path k, d)], true) end
        | None => Err end
      else Ok (kvs, [], false)
  | None => Ok (kvs, [], false)
  end.

Definition obj_body (rec : string -> json -> res (json * list dpath * bool)) (path : string) (kv : string * json)
  : res ((string * json) * list dpath * bool) :=
  let '(k, v) := kv in do (v', ps, b) <- rec (format_path path k) v; Ok ((k, v'), ps, b).

Definition arr_body (rec : string -> json -> res (json * list dpath * bool)) (d : disc) (path : string) (i : nat) (item : json)
  : res (json * list dpath * bool) :=
  let p := format_path path (show_nat i) in
  do ph <- placeholder_of item;
  do (item1, ps1, b1) <-
    match ph with
    | Some v => if json_eqb_str v (d_digest d)
                then match d_key d with Some _ => Err | None => Ok (d_val d, [(p, d)], true) end
                else Ok (item, [], false)
    | None => Ok (item, [], false) end;
  do (item2, ps2, b2) <- rec p item1;
  Ok (item2, (ps1 ++ ps2)%list, orb b1 b2).

(* n = remaining nesting budget: the code rejects depth > 128, i.e. budget 129 at the root *)
Fixpoint restore1 (n : nat) (d : disc) (path : string) (j : json) : res (json * list dpath * bool) :=
  match n with
  | O => Err
  | S n =>
    match j with
    | JObj kvs =>
        do (kvs1, ps1, b1) <- sd_step d path kvs;
        do (kvs2, ps2, b2) <- walk (obj_body (restore1 n d) path) kvs1;
        Ok (JObj kvs2, (ps1 ++ ps2)%list, orb b1 b2)
    | JArr xs =>
        do (xs2, ps2, b2) <- walki (arr_body (restore1 n d) d path) 0 xs;
        Ok (JArr xs2, ps2, b2)
    | _ => Ok (j, [], false)
    end
  end.

(* passes over the pending list until nothing is placed *)
Fixpoint pass (d_list : list disc) (claims : json) (ps : list dpath) : res (json * list dpath * list disc * bool) :=
  match d_list with
  | [] => Ok (claims, ps, [], false)
  | d :: r =>
      do (c1, ps1, b) <- restore1 129 d "" claims;
      (* repair F16: a disclosure restored at more than one place (its digest is embedded repeatedly) is an error at once *)
      if Nat.ltb 1 (List.length ps1) then Err else
      do (c2, ps2, rem, b') <- pass r c1 (ps ++ ps1)%list;
      Ok (c2, ps2, (if b then rem else d :: rem), orb b b')
  end.

Fixpoint passes (fuel : nat) (pending : list disc) (claims : json) (ps : list dpath) : res (json * list dpath) :=
  match fuel with
  | O => Ok (claims, ps)   (* unreachable when fuel > length pending; see lemma *)
  | S fuel =>
      do (c, ps', rem, progress) <- pass pending claims ps;
      if negb progress || (match rem with [] => true | _ => false end) then Ok (c, ps')
      else passes fuel rem c ps'
  end.
End Restore.
