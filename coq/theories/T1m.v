(* Root-level post-processing of Issuer::encode on the annotated tree: decoys and shuffle of the top-level
   digest list, the _sd_alg and cnf members. *)
From Coq Require Import List String Ascii Bool Arith Lia Sorting.Sorted Permutation.
Import ListNotations.
Require Import SDJ.Json SDJ.Model2 SDJ.ATree SDJ.T2a SDJ.T2b SDJ.T2c SDJ.T2d SDJ.T2e SDJ.T2h SDJ.T2k
  SDJ.Issuer1 SDJ.T1a SDJ.T1b SDJ.T1c SDJ.T1e.
Local Open Scope string_scope.

Definition amems := list (string * (mkind * atree)).

(* BTreeMap insert of a member that is not there yet *)
Fixpoint ains (k : string) (x : mkind * atree) (mems : amems) : amems :=
  match mems with
  | [] => [(k, x)]
  | (n, y) :: r => match String.compare k n with
                   | Lt => (k, x) :: mems
                   | Eq => (k, x) :: r
                   | Gt => (n, y) :: ains k x r end
  end.

Lemma obj_insert_first k v (l : list (string * json)) :
  Forall (fun kv => slt k (fst kv)) l -> obj_insert k v l = (k, v) :: l.
Proof.
  destruct l as [|[k1 v1] r]; [reflexivity|]. intros HF. inversion HF as [|? ? Hlt _]; subst. cbn [fst] in Hlt.
  cbn [obj_insert]. unfold slt in Hlt. rewrite Hlt. reflexivity.
Qed.

Lemma compare_neq_cases k n : k <> n -> String.compare k n = Lt \/ String.compare k n = Gt.
Proof.
  intros Hne. destruct (String.compare k n) eqn:E; [|auto|auto]. apply String.compare_eq_iff in E. contradiction.
Qed.

Lemma ains_keys k x : forall mems y, In y (map fst (ains k x mems)) <-> y = k \/ (In y (map fst mems) /\ (y <> k \/ True)).
Proof.
  induction mems as [|[n z] r IH]; intros y; cbn [ains map fst].
  - cbn. split; [intros [<-|[]]; auto|intros [->|[[] _]]; auto].
  - destruct (String.compare k n) eqn:Ec; cbn [map fst In].
    + apply String.compare_eq_iff in Ec. subst n. split; [intros [<-|Hin]; auto|intros [->|[[<-|Hin] _]]; auto].
    + split; [intros [<-|[<-|Hin]]; auto|intros [->|[[<-|Hin] _]]; auto].
    + rewrite IH. split; [intros [<-|[->|[Hin _]]]; auto|intros [->|[[<-|Hin] _]]; auto].
Qed.

Lemma ains_sorted k x : forall mems, StronglySorted slt (map fst mems) -> StronglySorted slt (map fst (ains k x mems)).
Proof.
  induction mems as [|[n z] r IH]; intros Hs; cbn [ains].
  - cbn. constructor; constructor.
  - cbn [map fst] in Hs. apply StronglySorted_inv in Hs as [Hs Hf].
    destruct (String.compare k n) eqn:Ec.
    + apply String.compare_eq_iff in Ec. subst n. cbn. constructor; assumption.
    + cbn [map fst]. constructor; [constructor; assumption|]. constructor; [exact Ec|].
      eapply Forall_impl; [|exact Hf]. intros a Ha. eapply slt_trans; eauto.
    + cbn [map fst]. constructor; [apply IH; assumption|].
      apply Forall_forall. intros y Hy. apply ains_keys in Hy as [->|[Hy _]].
      * unfold slt. rewrite String.compare_antisym, Ec. reflexivity.
      * rewrite Forall_forall in Hf. auto.
Qed.

Section M.
Variable H : string -> string.
Variable enc : list json -> string.
Notation blind := (blind H enc).
Notation view := (view H enc).
Notation wf := (wf H enc).
Notation hdigs := (hdigs H enc).
Notation alldigs := (alldigs H enc).
Notation bmem := (bmem H enc).
Notation proj := (proj H enc).
Notation dig_mem := (dig_mem H enc).

(* ---- a fresh plain member ---- *)
Lemma bmems_ains k s : forall mems : amems,
  StronglySorted slt (map fst mems) -> ~ In k (map fst mems) ->
  flat_map bmem (ains k (MPlain, s) mems) = obj_insert k (blind s) (flat_map bmem mems).
Proof.
  induction mems as [|[n [mk s0]] r IH]; intros Hs Hni; [reflexivity|].
  cbn [map fst] in Hs. apply StronglySorted_inv in Hs as [Hs Hf].
  assert (Hne : k <> n) by (intros ->; apply Hni; left; reflexivity).
  cbn [ains]. destruct (compare_neq_cases k n Hne) as [Ec|Ec]; rewrite Ec.
  - (* k before everything *)
    cbn [flat_map T1b.bmem app]. symmetry. apply obj_insert_first.
    apply Forall_forall. intros kv Hkv.
    assert (Hk : In (fst kv) (map fst ((n, (mk, s0)) :: r))) by (apply (keys_bmems H enc); apply in_map; exact Hkv).
    cbn in Hk. destruct Hk as [<-|Hk]; [exact Ec|]. rewrite Forall_forall in Hf. eapply slt_trans; [exact Ec|auto].
  - cbn [flat_map]. rewrite IH; [|assumption|intros Hin; apply Hni; right; assumption].
    destruct mk as [|salt|l]; cbn [T1b.bmem app]; try reflexivity; cbn [obj_insert]; rewrite Ec; reflexivity.
Qed.

Lemma sd_of_ains k s (mems : amems) : ~ In k (map fst mems) -> forall x, In x (sd_of (ains k (MPlain, s) mems)) <-> In x (sd_of mems).
Proof.
  intros Hni x. induction mems as [|[n [mk s0]] r IH]; [cbn; tauto|].
  assert (Hne : k <> n) by (intros ->; apply Hni; left; reflexivity).
  cbn [ains]. destruct (compare_neq_cases k n Hne) as [Ec|Ec]; rewrite Ec.
  - unfold sd_of. cbn [flat_map fst snd app]. tauto.
  - unfold sd_of in *. cbn [flat_map]. rewrite !in_app_iff, IH; [tauto|]. intros Hin. apply Hni. right. assumption.
Qed.

Lemma ains_members k x (mems : amems) m : In m (ains k x mems) -> m = (k, x) \/ In m mems.
Proof.
  induction mems as [|[n z] r IH]; cbn [ains]; [intros [<-|[]]; auto|].
  destruct (String.compare k n); cbn [In]; intros Hin.
  - destruct Hin as [<-|Hin]; auto.
  - destruct Hin as [<-|[<-|Hin]]; auto.
  - destruct Hin as [<-|Hin]; auto. destruct (IH Hin); auto.
Qed.

Lemma wf_ains k s (mems : amems) :
  wf (AObj mems) -> wf s -> ~ In k (map fst mems) -> k <> "_sd" -> k <> "..." -> wf (AObj (ains k (MPlain, s) mems)).
Proof.
  intros Hw Hws Hni H1 H2. inversion Hw as [| | ? Hs Hall Hok]; subst. constructor.
  - apply ains_sorted. assumption.
  - apply Forall_forall. intros m Hm. apply ains_members in Hm as [->|Hm]; [exact Hws|]. rewrite Forall_forall in Hall. auto.
  - apply Forall_forall. intros m Hm. apply ains_members in Hm as [->|Hm].
    + cbn. auto.
    + rewrite Forall_forall in Hok. specialize (Hok _ Hm). destruct m as [name [mk s0]]. cbn in Hok |- *.
      destruct mk as [|salt|l]; try assumption. destruct Hok as (Ha & Hb & Hc). repeat split; auto.
      apply (sd_of_ains k s mems Hni). assumption.
Qed.

Lemma alldigs_ains k j (mems : amems) : ~ In k (map fst mems) ->
  Permutation (alldigs (AObj (ains k (MPlain, embed j) mems))) (alldigs (AObj mems)).
Proof.
  intros Hni. rewrite !alldigs_obj. induction mems as [|[n [mk s0]] r IH].
  - cbn. rewrite (alldigs_embed H enc). reflexivity.
  - assert (Hne : k <> n) by (intros ->; apply Hni; left; reflexivity).
    cbn [ains]. destruct (compare_neq_cases k n Hne) as [Ec|Ec]; rewrite Ec.
    + cbn [flat_map T2c.adigs_mem]. rewrite (alldigs_embed H enc). reflexivity.
    + cbn [flat_map]. apply Permutation_app_head. apply IH. intros Hin. apply Hni. right. assumption.
Qed.

Lemma hdigs_ains k j (mems : amems) : ~ In k (map fst mems) ->
  Permutation (hdigs (AObj (ains k (MPlain, embed j) mems))) (hdigs (AObj mems)).
Proof.
  intros Hni. rewrite !(hdigs_obj H enc). induction mems as [|[n [mk s0]] r IH].
  - cbn. rewrite (hdigs_embed H enc). reflexivity.
  - assert (Hne : k <> n) by (intros ->; apply Hni; left; reflexivity).
    cbn [ains]. destruct (compare_neq_cases k n Hne) as [Ec|Ec]; rewrite Ec.
    + cbn [flat_map T2e.hdigs_mem]. rewrite (hdigs_embed H enc). reflexivity.
    + cbn [flat_map]. apply Permutation_app_head. apply IH. intros Hin. apply Hni. right. assumption.
Qed.

(* ---- replacing the root digest list (decoys appended, then shuffled) ---- *)
Fixpoint set_sd (l' : list string) (mems : amems) : amems :=
  match mems with
  | [] => []
  | (n, (k, s)) :: r => match k with
                        | MSd _ => (n, (MSd l', s)) :: r
                        | _ => (n, (k, s)) :: set_sd l' r end
  end.

Lemma set_sd_keys l' (mems : amems) : map fst (set_sd l' mems) = map fst mems.
Proof. induction mems as [|[n [k s]] r IH]; [reflexivity|]. destruct k; cbn; rewrite ?IH; reflexivity. Qed.

Lemma names_ok_of_wf mems : wf (AObj mems) -> Forall sd_names_ok mems.
Proof.
  intros Hw. inversion Hw as [| | ? Hs Hall Hok]; subst. rewrite Forall_forall in Hok |- *.
  intros [n [k s]] Hm. specialize (Hok _ Hm). unfold sd_names_ok. cbn in *. destruct k; tauto.
Qed.

Lemma bmems_set_sd l' : forall mems : amems,
  StronglySorted slt (map fst mems) -> Forall sd_names_ok mems ->
  (exists l s, In ("_sd", (MSd l, s)) mems) ->
  flat_map bmem (set_sd l' mems) = obj_insert "_sd" (JArr (map JStr l')) (flat_map bmem mems).
Proof.
  induction mems as [|[n [k s]] r IH]; intros Hs Hn (l & s0 & Hin); [destruct Hin|].
  cbn [map fst] in Hs. apply StronglySorted_inv in Hs as [Hs Hf].
  inversion Hn as [|? ? Hn1 Hn2]; subst. unfold sd_names_ok in Hn1. cbn in Hn1.
  destruct k as [|salt|l0].
  - (* plain head: the _sd member is further on, so n < "_sd" *)
    destruct Hin as [Hq|Hin]; [discriminate|].
    assert (Hlt : slt n "_sd").
    { rewrite Forall_forall in Hf. apply Hf. apply in_map_iff. exists ("_sd", (MSd l, s0)). auto. }
    cbn [set_sd flat_map T1b.bmem app]. rewrite IH by eauto. cbn [obj_insert]. rewrite (slt_gt _ _ Hlt). reflexivity.
  - destruct Hin as [Hq|Hin]; [discriminate|].
    cbn [set_sd flat_map T1b.bmem app]. apply IH; eauto.
  - subst n. cbn [set_sd flat_map T1b.bmem app obj_insert]. reflexivity.
Qed.

Lemma obj_get_sd_blind : forall mems : amems,
  StronglySorted slt (map fst mems) -> Forall sd_names_ok mems ->
  obj_get "_sd" (flat_map bmem mems) =
  match find (fun m => match fst (snd m) with MSd _ => true | _ => false end) mems with
  | Some (_, (MSd l, _)) => Some (JArr (map JStr l))
  | _ => None end.
Proof.
  induction mems as [|[n [k s]] r IH]; intros Hs Hn; [reflexivity|].
  cbn [map fst] in Hs. apply StronglySorted_inv in Hs as [Hs Hf].
  inversion Hn as [|? ? Hn1 Hn2]; subst. unfold sd_names_ok in Hn1. cbn in Hn1.
  destruct k as [|salt|l0]; cbn [find fst snd flat_map T1b.bmem app].
  - cbn [obj_get]. destruct (String.eqb_spec "_sd" n); [congruence|]. apply IH; assumption.
  - apply IH; assumption.
  - subst n. cbn. reflexivity.
Qed.

Lemma set_sd_sd_of l' (mems : amems) : (exists l s, In ("_sd", (MSd l, s)) mems) -> Forall sd_names_ok mems ->
  StronglySorted slt (map fst mems) -> forall x, In x l' -> In x (sd_of (set_sd l' mems)).
Proof.
  intros (l & s0 & Hin) Hn Hs x Hx. induction mems as [|[n [k s]] r IH]; [destruct Hin|].
  inversion Hn as [|? ? Hn1 Hn2]; subst. cbn [map fst] in Hs. apply StronglySorted_inv in Hs as [Hs Hf].
  destruct k as [|salt|l0]; cbn [set_sd].
  - destruct Hin as [Hq|Hin]; [discriminate|]. unfold sd_of in *. cbn [flat_map fst snd app]. apply IH; assumption.
  - destruct Hin as [Hq|Hin]; [discriminate|]. unfold sd_of in *. cbn [flat_map fst snd app]. apply IH; assumption.
  - unfold sd_of. cbn [flat_map fst snd]. apply in_or_app. left. assumption.
Qed.

Lemma set_sd_members l' (mems : amems) m : In m (set_sd l' mems) ->
  In m mems \/ exists l s, In ("_sd", (MSd l, s)) mems /\ m = ("_sd", (MSd l', s)) \/ (exists n l s, In (n, (MSd l, s)) mems /\ m = (n, (MSd l', s))).
Proof.
  induction mems as [|[n [k s]] r IH]; [intros []|]. destruct k as [|salt|l0]; cbn [set_sd In]; intros Hin.
  - destruct Hin as [<-|Hin]; [left; left; reflexivity|]. destruct (IH Hin) as [H1|(l & s1 & [H1|H1])].
    + left. right. assumption.
    + right. exists l, s1. left. destruct H1. split; [right; assumption|assumption].
    + right. exists l, s1. right. destruct H1 as (n0 & l1 & s2 & Hi & ->). exists n0, l1, s2. split; [right; assumption|reflexivity].
  - destruct Hin as [<-|Hin]; [left; left; reflexivity|]. destruct (IH Hin) as [H1|(l & s1 & [H1|H1])].
    + left. right. assumption.
    + right. exists l, s1. left. destruct H1. split; [right; assumption|assumption].
    + right. exists l, s1. right. destruct H1 as (n0 & l1 & s2 & Hi & ->). exists n0, l1, s2. split; [right; assumption|reflexivity].
  - destruct Hin as [<-|Hin]; [|left; right; assumption]. right. exists l0, s. right. exists n, l0, s. split; [left; reflexivity|reflexivity].
Qed.

Lemma wf_set_sd l' (mems : amems) :
  wf (AObj mems) -> (exists l s, In ("_sd", (MSd l, s)) mems) -> (forall x, In x (sd_of mems) -> In x l') ->
  wf (AObj (set_sd l' mems)).
Proof.
  intros Hw Hex Hincl. pose proof (names_ok_of_wf mems Hw) as Hn. inversion Hw as [| | ? Hs Hall Hok]; subst. constructor.
  - rewrite set_sd_keys. assumption.
  - apply Forall_forall. intros m Hm. rewrite Forall_forall in Hall.
    apply set_sd_members in Hm as [Hm|(l & s & [[Hi ->]|(n0 & l1 & s2 & Hi & ->)])]; [auto| |].
    + cbn. apply (Hall _ Hi).
    + cbn. apply (Hall _ Hi).
  - apply Forall_forall. intros m Hm. rewrite Forall_forall in Hok.
    apply set_sd_members in Hm as [Hm|(l & s & [[Hi ->]|(n0 & l1 & s2 & Hi & ->)])].
    + specialize (Hok _ Hm). destruct m as [name [mk s0]]. cbn in Hok |- *. destruct mk as [|salt|l0]; try assumption.
      destruct Hok as (Ha & Hb & Hc). repeat split; auto. apply set_sd_sd_of; auto.
    + specialize (Hok _ Hi). cbn in Hok |- *. assumption.
    + specialize (Hok _ Hi). cbn in Hok |- *. assumption.
Qed.

Lemma hdigs_set_sd l' (mems : amems) : hdigs (AObj (set_sd l' mems)) = hdigs (AObj mems).
Proof.
  rewrite !(hdigs_obj H enc). induction mems as [|[n [k s]] r IH]; [reflexivity|].
  destruct k as [|salt|l0]; cbn [set_sd flat_map T2e.hdigs_mem]; rewrite ?IH; reflexivity.
Qed.

(* ---- the same for the full projection (everything opened, bookkeeping dropped) ---- *)
Definition pmem (R : Rset) (m : string * (mkind * atree)) : list (string * json) :=
  let '(name, (k, s)) := m in
  match k with
  | MPlain => [(name, proj R s)]
  | MHid salt => if R (dig_mem salt name s) then [(name, proj R s)] else []
  | MSd _ => [] end.
Lemma proj_obj R mems : proj R (AObj mems) = JObj (flat_map (pmem R) mems).
Proof. reflexivity. Qed.

Lemma keys_pmems R (mems : amems) k : In k (map fst (flat_map (pmem R) mems)) -> In k (map fst mems).
Proof.
  induction mems as [|[name [mk s]] r IH]; cbn [flat_map map]; [intros []|].
  rewrite map_app, in_app_iff. intros [Hk|Hk]; [|right; auto].
  left. destruct mk as [|salt|l]; cbn in Hk.
  - destruct Hk as [<-|[]]; reflexivity.
  - destruct (R (dig_mem salt name s)); cbn in Hk; [destruct Hk as [<-|[]]; reflexivity|destruct Hk].
  - destruct Hk.
Qed.

Lemma pmems_ains R k s : forall mems : amems,
  StronglySorted slt (map fst mems) -> ~ In k (map fst mems) ->
  flat_map (pmem R) (ains k (MPlain, s) mems) = obj_insert k (proj R s) (flat_map (pmem R) mems).
Proof.
  induction mems as [|[n [mk s0]] r IH]; intros Hs Hni; [reflexivity|].
  cbn [map fst] in Hs. apply StronglySorted_inv in Hs as [Hs Hf].
  assert (Hne : k <> n) by (intros ->; apply Hni; left; reflexivity).
  cbn [ains]. destruct (compare_neq_cases k n Hne) as [Ec|Ec]; rewrite Ec.
  - cbn [flat_map pmem app]. symmetry. apply obj_insert_first.
    apply Forall_forall. intros kv Hkv.
    assert (Hk : In (fst kv) (map fst ((n, (mk, s0)) :: r))) by (apply (keys_pmems R); apply in_map; exact Hkv).
    cbn in Hk. destruct Hk as [<-|Hk]; [exact Ec|]. rewrite Forall_forall in Hf. eapply slt_trans; [exact Ec|auto].
  - cbn [flat_map]. rewrite IH; [|assumption|intros Hin; apply Hni; right; assumption].
    destruct mk as [|salt|l]; cbn [pmem app]; try reflexivity.
    + cbn [obj_insert]. rewrite Ec. reflexivity.
    + destruct (R (dig_mem salt n s0)); cbn [app]; [cbn [obj_insert]; rewrite Ec|]; reflexivity.
Qed.

Lemma proj_set_sd R l' (mems : amems) : proj R (AObj (set_sd l' mems)) = proj R (AObj mems).
Proof.
  rewrite !proj_obj. f_equal. induction mems as [|[n [k s]] r IH]; [reflexivity|].
  destruct k as [|salt|l0]; cbn [set_sd flat_map pmem]; rewrite ?IH; reflexivity.
Qed.

(* ---- digests embedded after the root list was replaced ---- *)
Lemma alldigs_set_sd l' : forall (mems : amems) l s, In ("_sd", (MSd l, s)) mems -> Forall sd_names_ok mems ->
  StronglySorted slt (map fst mems) ->
  exists rest, Permutation (alldigs (AObj mems)) (l ++ rest) /\ Permutation (alldigs (AObj (set_sd l' mems))) (l' ++ rest).
Proof.
  induction mems as [|[n [k s0]] r IH]; intros l s Hin Hn Hs; [destruct Hin|].
  inversion Hn as [|? ? Hn1 Hn2]; subst. cbn [map fst] in Hs. apply StronglySorted_inv in Hs as [Hs Hf].
  rewrite !alldigs_obj.
  destruct k as [|salt|l0]; cbn [set_sd flat_map T2c.adigs_mem].
  - destruct Hin as [Hq|Hin]; [discriminate|]. destruct (IH l s Hin Hn2 Hs) as (rest & H1 & H2). rewrite !alldigs_obj in H1, H2.
    exists (alldigs s0 ++ rest)%list. split.
    + etransitivity; [apply Permutation_app_head; exact H1|]. rewrite !app_assoc. apply Permutation_app_tail. apply Permutation_app_comm.
    + etransitivity; [apply Permutation_app_head; exact H2|]. rewrite !app_assoc. apply Permutation_app_tail. apply Permutation_app_comm.
  - destruct Hin as [Hq|Hin]; [discriminate|]. destruct (IH l s Hin Hn2 Hs) as (rest & H1 & H2). rewrite !alldigs_obj in H1, H2.
    exists (alldigs s0 ++ rest)%list. split.
    + etransitivity; [apply Permutation_app_head; exact H1|]. rewrite !app_assoc. apply Permutation_app_tail. apply Permutation_app_comm.
    + etransitivity; [apply Permutation_app_head; exact H2|]. rewrite !app_assoc. apply Permutation_app_tail. apply Permutation_app_comm.
  - (* this is the _sd member; by sortedness it is the only one named "_sd" *)
    destruct Hin as [Hq|Hin].
    + injection Hq as _ <- _. exists (flat_map (T2c.adigs_mem alldigs) r). split; reflexivity.
    + exfalso. unfold sd_names_ok in Hn1. cbn in Hn1. subst n. rewrite Forall_forall in Hf.
      assert (Hlt : slt "_sd" "_sd") by (apply Hf; apply in_map_iff; exists ("_sd", (MSd l, s)); auto).
      exact (slt_irrefl _ Hlt).
Qed.
End M.
