(* C01 (claims part) on the final models: the issuer fold of Issuer2 (string paths, random insertion
   positions) followed by the complete restore_disclosures (passes + duplicate/structure checks) with all
   disclosures, then stripping, gives back the original claims. *)
From Coq Require Import List String Ascii Bool Arith Lia Sorting.Sorted Permutation.
Import ListNotations.
Require Import SDJ.Json SDJ.Wire SDJ.Model2 SDJ.Out SDJ.Restore2 SDJ.ATree SDJ.T2a SDJ.T2b SDJ.T2c SDJ.T2d SDJ.T2e SDJ.T2h SDJ.T2k SDJ.T2m SDJ.T2o
  SDJ.Issuer1 SDJ.T1a SDJ.T1b SDJ.T1c SDJ.T1d SDJ.T1e SDJ.T1f SDJ.T1g SDJ.T1h SDJ.T1i SDJ.T1j SDJ.Split SDJ.Issuer2.
Local Open Scope string_scope.

Section K.
Variable H : string -> string.
Variable enc : list json -> string.
Variable dec : string -> dec_result.
Variable show_nat : nat -> string.
Variable parse_index : string -> option nat.
Variable parse_usize : string -> option nat.
Variable pos : string -> nat.
Hypothesis hash_inj : forall x y, H x = H y -> x = y.
Hypothesis dec_enc : forall ps, dec (enc ps) = DJson (JArr ps).

Notation blind := (blind H enc).
Notation view := (view H enc).
Notation wf := (wf H enc).
Notation hdigs := (hdigs H enc).
Notation alldigs := (alldigs H enc).
Notation IsNode := (IsNode H enc).
Notation mk_disc := (Issuer1.mk_disc H enc).
Notation proj := (proj H enc).
Notation issue_fold := (T1j.issue_fold H enc parse_index parse_usize pos).
Notation mark_fold := (T1j.mark_fold H enc parse_index parse_usize pos).
Notation made_with := (T1j.made_with H enc).

Theorem issue_restore_roundtrip_full C paths salts t' :
  jwf C -> NoDup salts -> mark_fold (embed C) paths salts = Some t' -> aheight t' <= 129 ->
  exists payload ds claims ps,
    issue_fold C paths salts = Ok (payload, ds) /\
    restore_disclosures H dec show_nat payload (map d_str ds) = Ok (claims, ps) /\
    strip claims = C.
Proof.
  intros HC Hnds Hm Hh.
  destruct (issue_fold_spec H enc parse_index parse_usize pos paths salts (embed C) t' (wf_embed H enc C HC) Hm)
    as (ds & Hf & Hw' & Hq1 & Hq2 & Hnodes & Hpres & Hproj & Hmade).
  rewrite (blind_embed H enc) in Hf. rewrite (hdigs_embed H enc), app_nil_r in Hq1. rewrite (alldigs_embed H enc), app_nil_r in Hq2.
  assert (HndL : NoDup (map d_str ds)).
  { eapply (made_with_nodup H enc dec dec_enc); [exact Hmade|]. apply NoDup_firstn'. assumption. }
  assert (Hdig : forall d, In d ds -> d_digest d = H (d_str d)).
  { clear -Hmade. induction Hmade as [|d0 salt ds0 ss Hmw HF IH]; intros d Hd; [destruct Hd|]. destruct Hd as [<-|Hd]; [|auto].
    unfold T1j.made_with in Hmw. rewrite Hmw. reflexivity. }
  assert (Hmd : map d_digest ds = map H (map d_str ds)).
  { rewrite map_map. apply map_ext_in. intros d Hd. apply Hdig. assumption. }
  assert (Hndd : NoDup (map d_digest ds)).
  { rewrite Hmd. clear -HndL hash_inj. induction HndL as [|s r Hni _ IH]; cbn; constructor; [|assumption].
    intros Hin. apply in_map_iff in Hin as [s' [Hq Hs']]. apply hash_inj in Hq. subst. contradiction. }
  assert (Hndh : NoDup (hdigs t')) by (eapply Permutation_NoDup; [symmetry; exact Hq1|assumption]).
  assert (Hnda : NoDup (alldigs t')) by (eapply Permutation_NoDup; [symmetry; exact Hq2|assumption]).
  assert (Hdecode : decode_all H dec (map d_str ds) = Ok ds).
  { assert (Hall : forall d, In d ds -> from_base64 H dec (d_str d) = Ok d).
    { intros d Hd.
      assert (Hmw : exists salt, made_with d salt).
      { clear -Hmade Hd. induction Hmade as [|d0 salt ds0 ss Hmw HF IH]; [destruct Hd|]. destruct Hd as [<-|Hd]; eauto. }
      destruct Hmw as [salt Hmw]. rewrite Forall_forall in Hnodes. specialize (Hnodes d Hd).
      unfold T1j.made_with in Hmw. rewrite Hmw. unfold from_base64. cbn [d_str Issuer1.mk_disc]. rewrite dec_enc.
      destruct (d_key d) as [name|] eqn:Ek.
      - cbn. rewrite (IsNode_name_ok H enc _ _ _ _ Hw' Hnodes). reflexivity.
      - reflexivity. }
    clear -Hall. induction ds as [|d r IH]; [reflexivity|]. cbn. rewrite Hall by (left; reflexivity). cbn.
    rewrite IH by (intros; apply Hall; right; assumption). reflexivity. }
  assert (Hdecoy : forall s, In s (map d_str ds) -> In (H s) (alldigs t') -> In (H s) (hdigs t')).
  { intros s _ Hin. eapply Permutation_in; [symmetry; exact Hq1|]. eapply Permutation_in; [exact Hq2|assumption]. }
  destruct (restore_full_ok H enc dec show_nat hash_inj dec_enc t' Hw' Hnda Hndh Hh (map d_str ds) ds HndL Hdecoy Hdecode) as [ps Hps].
  exists (blind t'), ds, (view (ownS H (map d_str ds)) t'), ps. split; [assumption|]. split; [assumption|].
  rewrite (view_ext H enc (ownS H (map d_str ds)) Rall).
  - rewrite (strip_view H enc Rall t' Hw'). rewrite Hproj. apply proj_embed.
  - intros g Hg. unfold Rall. unfold ownS. apply existsb_exists.
    assert (Hgd : In g (map d_digest ds)) by (eapply Permutation_in; [exact Hq1|assumption]).
    apply in_map_iff in Hgd as [d [Hq Hd]]. exists (d_str d). split; [apply in_map; assumption|].
    rewrite <- Hq, (Hdig d Hd). apply String.eqb_refl.
Qed.
End K.

(* ---- the same statement for the issuer model used in the correspondence run (Issuer2) ----
   split_paths paths = Some tks says: every path string has a '/', starts with '/', and has no reference token
   "_sd" or "..." (parse_path, repair F20); tks are the unescaped parent tokens and last token of each path *)
Definition split_paths (paths : list string) : option (list (list string * string)) :=
  fold_right (fun p acc => match parse_path p, acc with Some tk, Some r => Some (tk :: r) | _, _ => None end) (Some []) paths.

Lemma split_paths_cons p ps :
  split_paths (p :: ps) = match parse_path p, split_paths ps with Some tk, Some r => Some (tk :: r) | _, _ => None end.
Proof. reflexivity. Qed.

Lemma issue_fold_issuer2 E : forall paths tks claims salts,
  split_paths paths = Some tks ->
  Issuer2.issue_fold E claims paths salts =
  T1j.issue_fold (ie_hash E) (ie_enc E) Issuer2.parse_index Issuer2.parse_usize (ie_pos E) claims tks salts.
Proof.
  induction paths as [|p ps IH]; intros tks claims salts Hs.
  - cbn in Hs. injection Hs as <-. reflexivity.
  - rewrite split_paths_cons in Hs. destruct (parse_path p) as [[toks key]|] eqn:Ep; [|discriminate].
    destruct (split_paths ps) as [r|] eqn:Er; [|discriminate]. injection Hs as <-.
    cbn [Issuer2.issue_fold T1j.issue_fold]. destruct salts as [|salt ss]; [reflexivity|].
    unfold Issuer2.build_disclosure. rewrite Ep.
    change (Issuer2.update_at toks (Issuer2.disclose_here E key salt) claims)
      with (Issuer1.build_disclosure (ie_hash E) (ie_enc E) Issuer2.parse_index Issuer2.parse_usize (ie_pos E) claims toks key salt).
    destruct (Issuer1.build_disclosure _ _ _ _ _ claims toks key salt) as [[c1 d]|]; [|reflexivity]. cbn [bind].
    rewrite (IH r c1 ss eq_refl). reflexivity.
Qed.

Theorem issuer2_roundtrip E (dec : string -> dec_result) :
  (forall x y, ie_hash E x = ie_hash E y -> x = y) ->
  (forall ps, dec (ie_enc E ps) = DJson (JArr ps)) ->
  forall C paths tks salts t',
    jwf C -> NoDup salts -> split_paths paths = Some tks ->
    T1j.mark_fold (ie_hash E) (ie_enc E) Issuer2.parse_index Issuer2.parse_usize (ie_pos E) (embed C) tks salts = Some t' ->
    aheight t' <= 129 ->
    exists payload ds claims ps,
      Issuer2.issue_fold E C paths salts = Ok (payload, ds) /\
      restore_disclosures (ie_hash E) dec Wire.show_nat payload (map d_str ds) = Ok (claims, ps) /\
      strip claims = C.
Proof.
  intros Hinj Hde C paths tks salts t' HC Hnd Hs Hm Hh.
  destruct (issue_restore_roundtrip_full (ie_hash E) (ie_enc E) dec Wire.show_nat Issuer2.parse_index Issuer2.parse_usize (ie_pos E)
              Hinj Hde C tks salts t' HC Hnd Hm Hh) as (payload & ds & claims & ps & Hf & Hr & Hst).
  exists payload, ds, claims, ps. split; [rewrite (issue_fold_issuer2 E paths tks C salts Hs); assumption|]. split; assumption.
Qed.

(* the payload of the issuer fold is the blinded form of the annotated tree of the issuance *)
Theorem issuer2_payload_blind E :
  forall C paths tks salts t',
    jwf C -> split_paths paths = Some tks ->
    T1j.mark_fold (ie_hash E) (ie_enc E) Issuer2.parse_index Issuer2.parse_usize (ie_pos E) (embed C) tks salts = Some t' ->
    exists ds, Issuer2.issue_fold E C paths salts = Ok (blind (ie_hash E) (ie_enc E) t', ds) /\
               T2c.wf (ie_hash E) (ie_enc E) t' /\ proj (ie_hash E) (ie_enc E) Rall t' = C.
Proof.
  intros C paths tks salts t' HC Hs Hm.
  destruct (issue_fold_spec (ie_hash E) (ie_enc E) Issuer2.parse_index Issuer2.parse_usize (ie_pos E) tks salts (embed C) t'
              (wf_embed (ie_hash E) (ie_enc E) C HC) Hm)
    as (ds & Hf & Hw' & _ & _ & _ & _ & Hproj & _).
  rewrite (blind_embed (ie_hash E) (ie_enc E)) in Hf.
  exists ds. split; [rewrite (issue_fold_issuer2 E paths tks C salts Hs); assumption|]. split; [assumption|].
  rewrite Hproj. apply proj_embed.
Qed.
