(* Case glue for kind "issue": Issuer::encode replayed by the model with the random choices read back
   from the produced token, followed by Holder::verify of that token. Serves C01, C14 (and C07/C13 parts). *)
From Coq Require Import List String Ascii Bool Arith NArith ZArith.
Import ListNotations.
Require Import SDJ.Json SDJ.Wire SDJ.Model2 SDJ.Out SDJ.Restore2 SDJ.Split SDJ.SplitM SDJ.Spec SDJ.Verify SDJ.Issuer2 SDJ.CaseLib.
Local Open Scope string_scope.

Definition Z_of_json (j : json) : option Z :=
  match j with
  | JNum (String "-"%char r) => match N_of_dec r with Some n => Some (Z.opp (Z.of_N n)) | None => None end
  | JNum l => match N_of_dec l with Some n => Some (Z.of_N n) | None => None end
  | _ => None end.

(* table [[parts, string]] : the encoding oracle; a miss yields a string no table contains *)
Definition enc_of_table (tbl : list json) (parts : list json) : string :=
  match find (fun r => match r with JArr [p; JStr _] => json_eqb p (JArr parts) | _ => false end) tbl with
  | Some (JArr [_; JStr s]) => s
  | _ => "!enc-oracle-miss" end.

Definition pos_of_table (tbl : list json) (g : string) : nat :=
  match lookup2 g tbl with
  | Some [JNum n] => match nat_of_dec n with Some k => k | None => 0 end
  | _ => 0 end.

Definition sign_of_table (tbl : list json) (h p : json) : out string :=
  match find (fun r => match r with JArr [h'; p'; JStr _] => json_eqb h h' && json_eqb p p' | _ => false end) tbl with
  | Some (JArr [_; _; JStr s]) => Val s
  | _ => Fail end.

(* is [a] a rearrangement of [b]? (multiset equality through sorting by the string content) *)
Definition same_multiset (a b : list json) : bool :=
  json_eqb (JArr (sort_json a)) (JArr (sort_json b)).

Definition env_of_readback (rb : json) : issue_env :=
  {| ie_hash := hash_of_table (jlist (jget "H" rb)) SHA256;
     ie_enc := enc_of_table (jlist (jget "enc" rb));
     ie_salts := jlist (jget "salts" rb);
     ie_pos := pos_of_table (jlist (jget "pos" rb));
     ie_decoys := jstrs (jget "decoys" rb);
     ie_perm := fun l => match jget "top_sd" rb with
                         | JArr t => if same_multiset t l then t else l
                         | _ => l end;
     ie_sign := sign_of_table [JArr [jget "header" rb; jget "payload" rb; jget "jwt" rb]] |}.

(* when the implementation did not produce a token there is nothing to read back: the outcome class of
   the model does not depend on the random values, any environment will do *)
Definition dummy_env (n : nat) : issue_env :=
  {| ie_hash := fun s => s;
     ie_enc := fun _ => "x";
     ie_salts := map (fun i => JStr (show_nat i)) (seq 0 n);
     ie_pos := fun _ => 0;
     ie_decoys := ["decoy"];
     ie_perm := fun l => l;
     ie_sign := fun _ _ => Val "h.p.s" |}.

(* expires_in_seconds(n): claims["exp"] = now + n; the clock is an oracle, read back from the payload *)
Definition claims_with_exp (input call : json) (exp : json) : json :=
  match jget "exp_n" call, jget "claims" input with
  | JNum _, JObj kvs => JObj (obj_insert "exp" exp kvs)
  | _, c => c end.

Definition issue_model (E : issue_env) (input call : json) (exp : json) : out (string * json * list disc) :=
  let header := JObj [("alg", jget "alg" input); ("typ", JStr "sd-jwt")] in
  let cnf := if jbool (jget "cnf" input) then Some (jget "cnf_value" input) else None in
  issue E (claims_with_exp input call exp) (jstrs (jget "paths" input)) (Z_of_json (jget "decoy" input)) cnf header.

(* the value of the claim exp of an issued token: in the payload, or - when /exp was made disclosable - in the claims the
   holder gets back *)
Definition exp_value (call : json) : json :=
  match jget "exp" (jget "payload" (jget "readback" call)) with
  | JNull => match jlist (obs_val (jget "hverify" call)) with _ :: c :: _ => jget "exp" c | _ => JNull end
  | e => e end.

(* C14: an expiry requested as n seconds from now is recorded as now+n, now within the call's [t0,t1] *)
Definition exp_oracle (input call : json) : option string :=
  match Z_of_json (jget "exp_n" call) with
  | None => None
  | Some n =>
      (* n = the argument of the most recent expires_in_seconds call on this issuer object, [exp_t0, exp_t1] the
         clock around that call; an exp member the claims already had, or an earlier request, must not survive *)
      match Z_of_json (exp_value call), Z_of_json (jget "exp_t0" call), Z_of_json (jget "exp_t1" call) with
      | Some e, Some t0, Some t1 =>
          (* now+n in 64-bit signed arithmetic; beyond its range the recorded value saturates *)
          let lo := Z.max (-9223372036854775808) (Z.min 9223372036854775807 (t0 + n)) in
          let hi := Z.max (-9223372036854775808) (Z.min 9223372036854775807 (t1 + n)) in
          if ((lo <=? e) && (e <=? hi))%Z then None else Some "exp is not now+n"
      | _, _, _ => Some "exp missing or not an integer" end
  end.

(* C13 / C14: with .decoy(max), max >= 1, EVERY SD-JWT the issuer object produces - the first and every later one -
   carries between 1 and max decoy digests in its top-level digest list (read back: the entries that are not the
   digest of a disclosure) *)
Definition decoy_oracle (input call : json) : option string :=
  match Z_of_json (jget "decoy" input) with
  | Some m => if (0 <? m)%Z then
                let k := Z.of_nat (List.length (jlist (jget "decoys" (jget "readback" call)))) in
                if ((1 <=? k) && (k <=? m))%Z then None else Some "the number of decoy digests is not between 1 and the configured maximum"
              else None
  | None => None end.

(* C14: success exactly when the path list is a valid marking; never a panic *)
Definition encode_oracle (expect : string) (o : json) : option string :=
  if String.eqb expect "any" then None   (* input outside the property's domain: only model = implementation is compared *)
  else if String.eqb expect "ok_or_err" then (if obs_is "panic" o then Some "Issuer::encode panics" else None)   (* either answer is fine; what an Ok hands out is judged *)
  else if obs_is "panic" o then Some "Issuer::encode panics"
  else if String.eqb expect "ok" && negb (obs_is "ok" o) then Some "valid marking rejected by Issuer::encode"
  else if String.eqb expect "err" && negb (obs_is "err" o) then Some "unresolvable path list accepted by Issuer::encode"
  else None.

(* path triples with an optional value: [path, key] matches any value *)
Definition triple_matches (exp got : json) : bool :=
  match exp, got with
  | JArr [p; k], JArr [p'; k'; _] => json_eqb p p' && json_eqb k k'
  | JArr [p; k; v], JArr [p'; k'; v'] => json_eqb p p' && json_eqb k k' && json_eqb v v'
  | _, _ => false end.
Fixpoint all2 {A} (f : A -> A -> bool) (a b : list A) : bool :=
  match a, b with
  | [], [] => true
  | x :: a', y :: b' => f x y && all2 f a' b'
  | _, _ => false end.

(* C01: the holder gets exactly the original claims (+cnf) and one path per marked node *)
Definition roundtrip_oracle (claims : json) (triples : list json) (o : json) : option string :=
  if obs_is "panic" o then Some "Holder::verify panics"
  else if negb (obs_is "ok" o) then Some "Holder::verify rejects the issuer's own token"
  else match obs_val o with
       | JArr [_; c; JArr ps] =>
           if negb (json_eqb c claims) then Some "claims returned by Holder::verify differ from the issuer's claims"
           else if negb (all2 triple_matches (sort_json triples) ps) then Some "paths returned by Holder::verify differ from the issuer's paths"
           else None
       | _ => Some "unreadable outcome" end.

Definition oracles_of_readback (rb : json) : oracles :=
  {| o_hash := hash_of_table (jlist (jget "H" rb));
     o_dec := dec_of_table (jlist (jget "dec" rb));
     (* jwt-rustcrypto's decode accepts only a payload that is a JSON object (decode.rs: payload.as_object()) *)
     o_jwt := match jget "payload" rb with
              | JObj _ => jwt_of_table [JArr [jget "jwt" rb; jget "header" rb; jget "payload" rb]]
              | _ => fun _ => Fail end;
     o_kb := fun _ _ _ => Fail;
     o_claims := claims_of_table [JArr [jget "claims_seg" rb; jget "payload" rb]] |}.

Definition sorted_paths_ (ps : list dpath) : json := JArr (sort_json (map path_json (paths_json ps))).

Definition case_issue_call (input call : json) : verdict :=
  let eo := jget "encode" call in
  let rb := jget "readback" call in
  let npaths := List.length (jlist (jget "paths" input)) in
  let E := if obs_is "ok" eo then env_of_readback rb else dummy_env npaths in
  let exp := exp_value call in
  let m := issue_model E input call exp in
  let mo := if obs_is "ok" eo then obs_of_out (fun r : string * json * list disc => JStr (fst (fst r))) m
            else match m with Val _ => JObj [("o", JStr "ok")] | Fail => JObj [("o", JStr "err")] | Panic => JObj [("o", JStr "panic")] end in
  let nt := jbool (jget "nontrivial" input) in
  let v1 := decide (fun o => match encode_oracle (jstr_or_empty (jget "expect_issue" input)) o with
                              | Some w => Some w
                              | None => if obs_is "ok" o then
                                          match exp_oracle input call with Some w => Some w | None => decoy_oracle input call end
                                        else None end) eo mo nt "Issuer::encode" in
  if obs_is "ok" eo then
    let token := jstr_or_empty (obs_val eo) in
    let O := oracles_of_readback rb in
    let mh := obs_of_out (fun r : json * json * list dpath => let '(h, c, ps) := r in JArr [h; c; sorted_paths_ ps]) (holder_verify O token) in
    let claims := match claims_with_exp input call exp, jbool (jget "cnf" input) with
                  | JObj kvs, true => JObj (obj_insert "cnf" (jget "cnf_value" input) kvs)
                  | c, _ => c end in
    (* the round trip: also for an empty marking (C14: every issued SD-JWT is valid) - the token then carries no
       _sd_alg and is processed with the default sha-256 (repair F18). Claims that are not an object are outside
       the properties (expect_issue = "any"): only panic-freedom is required there *)
    let P := if String.eqb (jstr_or_empty (jget "expect_issue" input)) "any"
             then fun o => if obs_is "panic" o then Some "Holder::verify panics" else None
             else roundtrip_oracle claims (jlist (jget "path_triples" input)) in
    let v2 := decide P (jget "hverify" call) mh nt "Holder::verify" in
    worst v1 v2
  else v1.

Definition case_issue (input obs : json) : verdict :=
  match jlist (jget "calls" obs) with
  | [] => VBad "issue: no calls"
  | c :: cs => fold_left (fun acc call => worst acc (case_issue_call input call)) cs (case_issue_call input c)
  end.
