(* The complete restore_disclosures of the model (decode all, pass loop, duplicate and structure checks)
   on a conformant token: rejects, or returns exactly the view of the presented set. *)
From Coq Require Import List String Ascii Bool Arith Lia Sorting.Sorted.
Import ListNotations.
Require Import SDJ.Json SDJ.Model2 SDJ.Restore2 SDJ.ATree SDJ.T2a SDJ.T2b SDJ.T2c SDJ.T2d SDJ.T2e SDJ.T2f SDJ.T2g SDJ.T2h SDJ.T2i SDJ.T2j SDJ.T2k SDJ.T2l SDJ.T2m SDJ.T2n.
Local Open Scope string_scope.

Lemma NoDup_filter_map {A} (f : A -> string) (p : A -> bool) l :
  NoDup (map f l) -> NoDup (flat_map (fun x => if p x then [f x] else []) l).
Proof.
  induction l as [|x r IH]; cbn; intros Hnd; [constructor|]. inversion Hnd as [|? ? Hni Hr]; subst.
  destruct (p x); cbn; [|auto]. constructor; [|auto].
  intros Hin. apply Hni. apply in_flat_map in Hin as [y [Hy Hin]]. destruct (p y); [|destruct Hin].
  destruct Hin as [<-|[]]. apply in_map. assumption.
Qed.

Section O.
Variable H : string -> string.
Variable enc : list json -> string.
Variable dec : string -> dec_result.
Variable show_nat : nat -> string.
Hypothesis hash_inj : forall x y, H x = H y -> x = y.
Hypothesis dec_enc : forall ps, dec (enc ps) = DJson (JArr ps).

Notation blind := (blind H enc).
Notation view := (view H enc).
Notation hdigs := (hdigs H enc).
Notation alldigs := (alldigs H enc).
Notation wf := (wf H enc).

Variable t : atree.
Hypothesis Hwf : wf t.
Hypothesis Hnd : NoDup (alldigs t).
Hypothesis Hndh : NoDup (hdigs t).
Hypothesis Hheight : aheight t <= 129.

Lemma placed_digests_eq (placed : list dpath) :
  placed_item_digests placed = flat_map (fun pd : dpath => if (match d_key (snd pd) with None => true | Some _ => false end) then [pdig pd] else []) placed.
Proof. unfold placed_item_digests, pdig. apply flat_map_ext. intros pd. destruct (d_key (snd pd)); reflexivity. Qed.

(* the post-pass checks succeed on the final view *)
Lemma post_checks_ok ds placed :
  Forall (placed_ok H enc show_nat t R0 (own ds) ds) placed -> NoDup (map pdig placed) ->
  exists seen seen', insert_all (placed_item_digests placed) [] = Ok seen /\
                     check_digests 129 (view (own ds) t) seen = Ok seen'.
Proof.
  intros Hpl Hndp.
  assert (Hndpid : NoDup (placed_item_digests placed)).
  { rewrite placed_digests_eq. apply NoDup_filter_map. assumption. }
  exists (rev (placed_item_digests placed) ++ [])%list.
  assert (Hins : insert_all (placed_item_digests placed) [] = Ok (rev (placed_item_digests placed) ++ [])%list).
  { apply insert_all_ok. rewrite app_nil_r. assumption. }
  destruct (check_digests_ok 129 (view (own ds) t) (rev (placed_item_digests placed) ++ [])%list) as [seen' Hc].
  - apply sdwf_view. assumption.
  - pose proof (height_view H enc (own ds) t Hwf). lia.
  - rewrite app_nil_r. apply NoDup_app_intro.
    + apply nodup_of_cnt. intros g. pose proof (cnt_view H enc (own ds) g t Hwf). pose proof (cnt_nodup g _ Hnd). lia.
    + apply NoDup_rev. assumption.
    + intros g Hc Hp. apply in_rev in Hp. unfold placed_item_digests in Hp. apply in_flat_map in Hp as [pd [Hpd Hg]].
      destruct (d_key (snd pd)) eqn:Ek; [destruct Hg|]. destruct Hg as [<-|[]].
      rewrite Forall_forall in Hpl. destruct (Hpl pd Hpd) as (_ & Ho & R1 & _ & Hmono & Hex & _).
      rewrite Ek in Hex.
      pose proof (Exposed_oitems H enc R1 (own ds) _ _ t Hex Hmono Ho) as Hoi.
      pose proof (cnt_view H enc (own ds) (d_digest (snd pd)) t Hwf). pose proof (cnt_nodup (d_digest (snd pd)) _ Hnd).
      pose proof (cnt_in _ _ Hoi). pose proof (cnt_in _ _ Hc). lia.
  - exists seen'. split; assumption.
Qed.

(* C03 / C08 / C12 core at full strength: for every duplicate-free list of presented strings, in any
   order, none of which hashes to a decoy: when all of them decode, the complete restore_disclosures accepts
   and returns exactly the view of the presented set *)
(* what the returned path list says: every entry is a presented disclosure together with the path of the
   hidden node it opens; no disclosure is reported twice; and the final state Rf of the loop (whose view is
   the returned one) only contains digests that were reported and has nothing presented left exposed *)
Theorem restore_full_ok_paths L ds :
  NoDup L -> (forall s, In s L -> In (H s) (alldigs t) -> In (H s) (hdigs t)) ->
  decode_all H dec L = Ok ds ->
  exists ps, restore_disclosures H dec show_nat (blind t) L = Ok (view (ownS H L) t, ps) /\
    Forall (fun pd : dpath => In (snd pd) ds /\ NodePath H enc show_nat (d_digest (snd pd)) t (fst pd)) ps /\
    NoDup (map pdig ps) /\
    exists Rf, (forall g, Rf g = true -> In g (map pdig ps)) /\
               (forall g k v, Exposed H enc Rf g k v t -> own ds g = false) /\
               (forall g, Rf g = true -> own ds g = true).
Proof.
  intros HndL Hdecoy Ed. unfold restore_disclosures, restore_passes. rewrite Ed. cbn [bind].
  destruct (decode_all_spec H enc dec hash_inj dec_enc t Hwf L ds Ed Hdecoy) as [Hm HF].
  assert (Hndd : NoDup (map d_digest ds)).
  { rewrite Hm. clear -HndL hash_inj. induction HndL as [|s r Hni _ IH]; cbn; constructor; [|assumption].
    intros Hin. apply in_map_iff in Hin as [s' [Hq Hs']]. apply hash_inj in Hq. subst. contradiction. }
  destruct (restore_all H enc show_nat t Hwf Hnd Hndh Hheight ds HF Hndd) as (placed & Hps & Hpl & Hndp & Rf & Hgrow & Hnoex & Hsub).
  rewrite <- (view_R0_blind H enc), Hps. cbn [bind].
  destruct (post_checks_ok ds placed Hpl Hndp) as (seen & seen' & Hi & Hc).
  rewrite Hi. cbn [bind]. rewrite Hc. cbn [bind].
  exists placed. split; [f_equal; f_equal; apply view_ext; intros g _; apply own_ownS; assumption|].
  split.
  { eapply Forall_impl; [|exact Hpl]. intros pd (Hin & _ & R1 & _ & _ & _ & Hnp). split; assumption. }
  split; [assumption|]. exists Rf. auto.
Qed.

Theorem restore_full_ok L ds :
  NoDup L -> (forall s, In s L -> In (H s) (alldigs t) -> In (H s) (hdigs t)) ->
  decode_all H dec L = Ok ds ->
  exists ps, restore_disclosures H dec show_nat (blind t) L = Ok (view (ownS H L) t, ps).
Proof.
  intros HndL Hdecoy Ed. destruct (restore_full_ok_paths L ds HndL Hdecoy Ed) as (ps & Hps & _). eauto.
Qed.

(* ... and in general it rejects or returns that view *)
Theorem restore_full_spec L :
  NoDup L -> (forall s, In s L -> In (H s) (alldigs t) -> In (H s) (hdigs t)) ->
  restore_disclosures H dec show_nat (blind t) L = Err \/
  exists ps, restore_disclosures H dec show_nat (blind t) L = Ok (view (ownS H L) t, ps).
Proof.
  intros HndL Hdecoy. destruct (decode_all H dec L) as [ds|] eqn:Ed.
  - right. eapply restore_full_ok; eauto.
  - left. unfold restore_disclosures, restore_passes. rewrite Ed. reflexivity.
Qed.
End O.
