(* string-level facts about path rendering and parsing: escaping, splitting, decimal indices *)
From Coq Require Import List String Ascii Bool Arith NArith Lia.
Import ListNotations.
Require Import SDJ.Json SDJ.Wire SDJ.Split SDJ.Issuer2.
Require Import SDJ.DecStr.
Local Open Scope string_scope.

(* ---------- replace2 / unescape against esc_tok ---------- *)
Lemma replace2_skip a b by_ c r : Ascii.eqb c a = false -> replace2 a b by_ (String c r) = String c (replace2 a b by_ r).
Proof. intros Hc. cbn [replace2]. destruct r as [|d r']; [reflexivity|]. rewrite Hc. reflexivity. Qed.

Lemma replace2_hit a b by_ r : replace2 a b by_ (String a (String b r)) = String by_ (replace2 a b by_ r).
Proof. cbn [replace2]. rewrite !Ascii.eqb_refl. reflexivity. Qed.

Lemma replace2_near a b by_ d r : Ascii.eqb d b = false -> replace2 a b by_ (String a (String d r)) = String a (replace2 a b by_ (String d r)).
Proof. intros Hd. cbn [replace2]. rewrite Ascii.eqb_refl, Hd. reflexivity. Qed.

(* '~' -> "~0", everything else unchanged *)
Fixpoint esc0 (s : string) : string :=
  match s with
  | EmptyString => EmptyString
  | String c r => if Ascii.eqb c "~"%char then String "~"%char (String "0"%char (esc0 r)) else String c (esc0 r)
  end.

Lemma unescape_pass1 s : replace2 "~"%char "1"%char "/"%char (esc_tok s) = esc0 s.
Proof.
  induction s as [|c r IH]; [reflexivity|]. cbn [esc_tok esc0].
  destruct (Ascii.eqb c "~"%char) eqn:E1.
  - rewrite replace2_near by reflexivity. rewrite replace2_skip by reflexivity. rewrite IH. reflexivity.
  - destruct (Ascii.eqb c "/"%char) eqn:E2.
    + rewrite replace2_hit. rewrite IH. apply Ascii.eqb_eq in E2. subst c. reflexivity.
    + rewrite replace2_skip by assumption. rewrite IH. reflexivity.
Qed.

Lemma unescape_pass2 s : replace2 "~"%char "0"%char "~"%char (esc0 s) = s.
Proof.
  induction s as [|c r IH]; [reflexivity|]. cbn [esc0].
  destruct (Ascii.eqb c "~"%char) eqn:E1.
  - rewrite replace2_hit, IH. apply Ascii.eqb_eq in E1. subst c. reflexivity.
  - rewrite replace2_skip by assumption. rewrite IH. reflexivity.
Qed.

Theorem unescape_esc s : unescape (esc_tok s) = s.
Proof. unfold unescape. rewrite unescape_pass1. apply unescape_pass2. Qed.

Corollary esc_tok_inj a b : esc_tok a = esc_tok b -> a = b.
Proof. intros Hq. rewrite <- (unescape_esc a), <- (unescape_esc b), Hq. reflexivity. Qed.

Lemma esc_tok_no_slash s : contains slash (esc_tok s) = false.
Proof.
  induction s as [|c r IH]; [reflexivity|]. cbn [esc_tok].
  destruct (Ascii.eqb c "~"%char) eqn:E1; [cbn; exact IH|].
  destruct (Ascii.eqb c "/"%char) eqn:E2; [cbn; exact IH|].
  cbn [contains]. unfold slash. rewrite E2. exact IH.
Qed.

Lemma esc_tok_reserved s : esc_tok s = "_sd" \/ esc_tok s = "..." -> s = "_sd" \/ s = "...".
Proof. intros [Hq|Hq]; [left|right]; apply esc_tok_inj; rewrite Hq; reflexivity. Qed.

(* ---------- parsing a rendered address ---------- *)
Require Import SDJ.T1r SDJ.T1s SDJ.T1e.

Definition tokstr (t : step) : string := match t with SKey k => k | SIdx i => Wire.show_nat i end.
Definition etok (t : step) : string := esc_tok (tokstr t).
Notation render := (T1s.render Wire.show_nat).

Lemma render_cons t r : render (t :: r) = ("/" ++ etok t ++ render r)%string.
Proof. destruct t; reflexivity. Qed.

Lemma append_assoc_p (a b c : string) : ((a ++ b) ++ c = a ++ (b ++ c))%string.
Proof. induction a; cbn; congruence. Qed.

Lemma split_render : forall a, split_on slash (render a) = "" :: map etok a.
Proof.
  induction a as [|t r IH]; [reflexivity|]. rewrite render_cons.
  change ("/" ++ etok t ++ render r)%string with (String slash (etok t ++ render r)).
  cbn [split_on]. unfold slash at 1. rewrite Ascii.eqb_refl. f_equal.
  destruct r as [|t2 r2].
  - cbn [T1s.render map]. assert (Hnil : forall s : string, (s ++ "")%string = s) by (induction s; cbn; congruence).
    rewrite Hnil. apply split_no_sep. apply esc_tok_no_slash.
  - rewrite render_cons. change ("/" ++ etok t2 ++ render r2)%string with (String slash (etok t2 ++ render r2)).
    rewrite split_app_sep by apply esc_tok_no_slash. cbn [map]. f_equal.
    rewrite render_cons in IH. change ("/" ++ etok t2 ++ render r2)%string with (String slash (etok t2 ++ render r2)) in IH.
    cbn [split_on] in IH. unfold slash at 1 in IH. rewrite Ascii.eqb_refl in IH. injection IH as IH. exact IH.
Qed.

Lemma unescape_etok t : unescape (etok t) = tokstr t.
Proof. apply unescape_esc. Qed.

Lemma rev_cons_last {A} (x : A) l : l <> [] -> exists l' y, x :: l = (l' ++ [y])%list /\ rev (x :: l) = y :: rev l'.
Proof.
  intros Hl. destruct (exists_last Hl) as (l0 & y & ->). exists (x :: l0), y. split; [reflexivity|].
  cbn [rev]. rewrite rev_app_distr. reflexivity.
Qed.

(* no reference token of a rendered address is reserved when no member name on it is *)
Definition unreserved (a : addr) : Prop := Forall (fun t => match t with SKey k => k <> "_sd" /\ k <> "..." | SIdx _ => True end) a.

Lemma show_nat_digits i : all_digits (Wire.show_nat i) = true.
Proof. unfold Wire.show_nat. apply dec_of_N_shape. Qed.

Lemma etok_not_reserved t : (match t with SKey k => k <> "_sd" /\ k <> "..." | SIdx _ => True end) ->
  (String.eqb (etok t) "_sd" || String.eqb (etok t) "...") = false.
Proof.
  intros Ht. destruct (String.eqb_spec (etok t) "_sd") as [Hq|_]; [|destruct (String.eqb_spec (etok t) "...") as [Hq|_]; [|reflexivity]].
  - exfalso. unfold etok in Hq. destruct t as [k|i]; cbn [tokstr] in Hq.
    + destruct (esc_tok_reserved k (or_introl Hq)); tauto.
    + rewrite (esc_tok_digits _ (show_nat_digits i)) in Hq. pose proof (show_nat_digits i) as Hd. rewrite Hq in Hd. vm_compute in Hd. discriminate.
  - exfalso. unfold etok in Hq. destruct t as [k|i]; cbn [tokstr] in Hq.
    + destruct (esc_tok_reserved k (or_intror Hq)); tauto.
    + rewrite (esc_tok_digits _ (show_nat_digits i)) in Hq. pose proof (show_nat_digits i) as Hd. rewrite Hq in Hd. vm_compute in Hd. discriminate.
Qed.

Lemma reserved_render a : unreserved a -> reserved_token (render a) = false.
Proof.
  intros Hu. unfold reserved_token. rewrite split_render. cbn [existsb]. cbn [String.eqb orb].
  induction Hu as [|t r Ht _ IH]; [reflexivity|]. cbn [map existsb]. rewrite (etok_not_reserved t Ht). exact IH.
Qed.

Theorem parse_path_render (a : addr) (t : step) : unreserved (a ++ [t])%list ->
  parse_path (render (a ++ [t])%list) = Some (map tokstr a, tokstr t).
Proof.
  intros Hu. unfold parse_path. rewrite (reserved_render _ Hu). unfold split_path. rewrite split_render.
  rewrite map_app. cbn [map]. change ("" :: (map etok a ++ [etok t])%list) with (("" :: map etok a) ++ [etok t])%list.
  rewrite rev_app_distr. change (rev [etok t]) with [etok t]. cbn [app]. rewrite rev_involutive. cbn [String.eqb].
  rewrite map_map. rewrite unescape_etok.
  destruct (rev ("" :: map etok a)) eqn:E; [exfalso; apply (f_equal (@List.length _)) in E; rewrite rev_length in E; discriminate|].
  f_equal. f_equal. apply map_ext. intros x. apply unescape_etok.
Qed.

(* ---------- the rendered address of an existing node resolves to that node ---------- *)
Fixpoint jat (a : addr) (j : json) : Prop :=
  match a with
  | [] => True
  | SKey k :: r => match j with JObj kvs => match obj_get k kvs with Some v => jat r v | None => False end | _ => False end
  | SIdx i :: r => match j with JArr xs => match nth_error xs i with Some v => jat r v | None => False end | _ => False end
  end.

Definition small (a : addr) : Prop := Forall (fun t => match t with SIdx i => (N.of_nat i <= usize_max)%N | SKey _ => True end) a.

Lemma parse_usize_show_nat i : (N.of_nat i <= usize_max)%N -> parse_usize (Wire.show_nat i) = Some i.
Proof. intros Hi. unfold Wire.show_nat. rewrite (parse_usize_show _ Hi). rewrite Nat2N.id. reflexivity. Qed.
Lemma parse_index_show_nat i : (N.of_nat i <= usize_max)%N -> parse_index (Wire.show_nat i) = Some i.
Proof. intros Hi. unfold Wire.show_nat. rewrite (parse_index_show _ Hi). rewrite Nat2N.id. reflexivity. Qed.

Theorem jresolve_render : forall (a : addr) (t : step) (C : json),
  jat (a ++ [t])%list C -> small (a ++ [t])%list ->
  jresolve parse_index parse_usize (map tokstr a) (tokstr t) C = Some (a ++ [t])%list.
Proof.
  induction a as [|s a IH]; intros t C Hat Hs.
  - cbn [app map jresolve]. destruct t as [k|i]; cbn [jat app] in Hat; cbn [tokstr].
    + destruct C as [| | | | |kvs]; try contradiction. destruct (obj_get k kvs); [reflexivity|contradiction].
    + destruct C as [| | | |xs|]; try contradiction. inversion Hs as [|? ? Hi _]; subst.
      rewrite (parse_usize_show_nat i Hi). destruct (nth_error xs i); [reflexivity|contradiction].
  - cbn [app map jresolve]. inversion Hs as [|? ? Hi Hs']; subst. destruct s as [k|i]; cbn [jat app] in Hat; cbn [tokstr].
    + destruct C as [| | | | |kvs]; try contradiction. destruct (obj_get k kvs) as [v|]; [|contradiction].
      rewrite (IH t v Hat Hs'). reflexivity.
    + destruct C as [| | | |xs|]; try contradiction. rewrite (parse_index_show_nat i Hi).
      destruct (nth_error xs i) as [v|]; [|contradiction]. rewrite (IH t v Hat Hs'). reflexivity.
Qed.

Lemma jat_unreserved : forall a C, jwf C -> jat a C -> unreserved a.
Proof.
  induction a as [|s a IH]; intros C Hw Hat; [constructor|]. destruct s as [k|i]; cbn [jat] in Hat.
  - destruct C as [| | | | |kvs]; try contradiction. destruct (obj_get k kvs) as [v|] eqn:Eg; [|contradiction].
    inversion Hw as [| | | | |? _ Hk]; subst. apply T2a.obj_get_in in Eg. rewrite Forall_forall in Hk. destruct (Hk _ Eg) as (H1 & H2 & H3). cbn [fst snd] in *.
    constructor; [split; assumption|]. exact (IH v H3 Hat).
  - destruct C as [| | | |xs|]; try contradiction. destruct (nth_error xs i) as [v|] eqn:En; [|contradiction].
    inversion Hw as [| | | |? Hx|]; subst. apply nth_error_In in En. rewrite Forall_forall in Hx.
    constructor; [exact I|]. exact (IH v (Hx _ En) Hat).
Qed.

(* the issuer, given the rendered address of an existing node, resolves exactly that node *)
Corollary render_resolves (a : addr) (t : step) (C : json) :
  jwf C -> jat (a ++ [t])%list C -> small (a ++ [t])%list ->
  exists toks key, parse_path (render (a ++ [t])%list) = Some (toks, key) /\
                   jresolve parse_index parse_usize toks key C = Some (a ++ [t])%list.
Proof.
  intros Hw Hat Hs. exists (map tokstr a), (tokstr t). split.
  - apply parse_path_render. exact (jat_unreserved _ C Hw Hat).
  - apply jresolve_render; assumption.
Qed.
