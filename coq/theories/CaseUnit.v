(* Case glue for kind "unit": FUNCTION-LEVEL correspondence. The private functions of utils.rs, issuer.rs,
   decoding.rs and encoding.rs are called directly (through the cfg(sdjwt_verif) hooks of /repo) on the
   inputs they can receive through the public API, and each must agree with its Gallina counterpart:
     restore_disclosure  = Model2.restore1            restore_disclosures = Restore2.restore_disclosures
     check_digests       = Restore2.check_digests     remove_(all_)digests = Restore2.remove_digests / strip
     sd_contains_digest  = Model2.sd_contains         declared_hash_alg   = Verify.declared_halg
     format_path         = Model2.format_path         drop_kb             = SplitM.drop_kb_m
     build_disclosure    = Issuer2.build_disclosure   reject_reserved_names = Issuer2.has_reserved
     build_decoys        = Issuer2.add_decoys         build_validation    = Jwt.build_validation
     build_header        = Jwt.build_header (+ serialisation)
   This is the tie of the model to the code at the granularity at which the theorems are stated (the T1/T2
   files speak about exactly these functions); the end-to-end kinds tie the compositions. *)
From Coq Require Import List String Ascii Bool Arith NArith ZArith.
Import ListNotations.
Require Import SDJ.Json SDJ.Wire SDJ.Model2 SDJ.Out SDJ.Restore2 SDJ.Split SDJ.SplitM SDJ.Spec SDJ.Verify SDJ.Issuer2 SDJ.Jwt
               SDJ.CaseLib SDJ.CaseIssue SDJ.CaseJwt.
Local Open Scope string_scope.

Definition obs_of_res {A} (f : A -> json) (x : res A) : json :=
  match x with Ok a => JObj [("o", JStr "ok"); ("v", f a)] | Err => JObj [("o", JStr "err")] end.

Definition jnat (j : json) : nat := match j with JNum l => match nat_of_dec l with Some n => n | None => 0 end | _ => 0 end.

Definition paths_in_order (ps : list dpath) : json := JArr (map path_json (paths_json ps)).

Definition halg_of (input : json) : option halg := parse_halg (jstr_or_empty (jget "alg" input)).

(* ---- utils.rs ---- *)
Definition unit_restore1 (input : json) : json :=
  let O := oracles_of input in
  match halg_of input with
  | None => JObj [("o", JStr "err")]
  | Some a =>
      obs_of_res (fun r : json * list dpath * bool => let '(c, ps, b) := r in JArr [c; paths_in_order ps; JBool b])
        (do d <- from_base64 (o_hash O a) (o_dec O) (jstr_or_empty (jget "disc" input));
         restore1 show_nat (129 - jnat (jget "depth" input)) d (jstr_or_empty (jget "path" input)) (jget "claims" input))
  end.

Definition unit_restore_all (input : json) : json :=
  let O := oracles_of input in
  match halg_of input with
  | None => JObj [("o", JStr "err")]
  | Some a =>
      obs_of_res (fun r : json * list dpath => JArr [fst r; paths_in_order (snd r)])
        (restore_disclosures (o_hash O a) (o_dec O) show_nat (jget "claims" input) (jstrs (jget "ds" input)))
  end.

Definition unit_check (input : json) : json :=
  obs_of_res (fun _ : list string => JNull)
    (check_digests (129 - jnat (jget "depth" input)) (jget "claims" input) (jstrs (jget "seen" input))).

Definition unit_contains (input : json) : json :=
  obs_of_res JBool (sd_contains (jget "sd" input) (jstr_or_empty (jget "digest" input))).

Definition unit_declared (input : json) : json :=
  match declared_halg (jget "claims" input) with
  | Some a => JObj [("o", JStr "ok"); ("v", JStr (halg_name a))]
  | None => JObj [("o", JStr "err")] end.

(* ---- issuer.rs ---- *)
Definition unit_env (rb : json) : issue_env :=
  {| ie_hash := hash_of_table (jlist (jget "H" rb)) SHA256;
     ie_enc := enc_of_table (jlist (jget "enc" rb));
     ie_salts := [];
     ie_pos := pos_of_table (jlist (jget "pos" rb));
     ie_decoys := [];
     ie_perm := fun l => l;
     ie_sign := fun _ _ => Fail |}.

Definition disc_json (d : disc) : json := JArr [JStr (d_str d); JStr (d_digest d); jopt (d_key d); d_val d].

(* the entries of every _sd array in sorted order: at function level WHERE in its list a new digest lands is the
   business of the random choice (and of how the code applies it: insert at a drawn index, push and swap, ...); which
   list it lands in, and everything else of the working copy, is compared exactly *)
Fixpoint sort_sd (j : json) : json :=
  match j with
  | JObj kvs => JObj (map (fun kv : string * json => let '(k, v) := kv in
                             if String.eqb k "_sd" then (k, match v with JArr xs => JArr (sort_json xs) | _ => v end)
                             else (k, sort_sd v)) kvs)
  | JArr xs => JArr (map sort_sd xs)
  | _ => j end.

(* build_disclosure applied to the paths one after the other on the same working copy, as encode() does. Every step of
   the model starts from the working copy the implementation produced in the step before (so that values hashed later
   contain the digest lists in the order they really have) and must produce the same disclosure and, up to the order
   inside _sd lists, the same working copy; the fold stops at the first error, which both sides must reach together *)
Fixpoint unit_build_agrees (E : issue_env) (prev : json) (paths : list string) (salts : list json) (steps : list json) : bool :=
  match paths, steps with
  | _, [] => true                      (* the implementation stopped (after an error): nothing further to compare *)
  | [], _ :: _ => false
  | p :: ps, st :: sts =>
      let salt := match salts with s :: _ => s | [] => JNull end in
      match build_disclosure E prev p salt with
      | Ok (c, d) =>
          obs_is "ok" st &&
          match obs_val st with
          | JArr [c_obs; d_obs] =>
              json_eqb (sort_sd c) (sort_sd c_obs) && json_eqb (disc_json d) d_obs && unit_build_agrees E c_obs ps (tl salts) sts
          | _ => false end
      | Err => obs_is "err" st && (match sts with [] => true | _ => false end)
      end
  end.

(* when a step fails in the implementation nothing of it can be read back; the class of the model's outcome does not
   depend on the random values *)
Definition class_list (l : list json) : json := JArr (map (fun o => JStr (obs_class o)) l).

Definition unit_decoys (input rb : json) : json :=
  let ds := jstrs (jget "decoys" rb) in
  match jget "claims" input with
  | JObj kvs => obs_of_res (fun k : list (string * json) => JArr [JObj k; JArr (map JStr ds)]) (add_decoys kvs ds)
  | _ => JObj [("o", JStr "err")] end.

(* ---- decoding.rs build_validation / encoding.rs build_header ---- *)
Definition json_of_options (o : jwt_options) : json :=
  JObj [("algorithms", JArr (map (fun a => JStr (jalg_name a)) (jo_algs o)));
        ("audiences", json_of_set (jo_auds o));
        ("issuer", jopt (jo_iss o));
        ("leeway", JNum (dec_of_N (jo_leeway o)));
        ("required_claims", json_of_set (jo_required o));
        ("subject", jopt (jo_sub o));
        ("validate_exp", JBool (jo_exp o));
        ("validate_nbf", JBool (jo_nbf o))].

Definition no_panic_ (o : json) : option string := if obs_is "panic" o then Some "panics" else None.

Definition case_unit (input obs : json) : verdict :=
  let fn := jstr_or_empty (jget "fn" input) in
  let r := jget "res" obs in
  let rb := jget "readback" obs in
  let cmp (model : json) (what : string) := decide no_panic_ r model true what in
  if String.eqb fn "restore1" then cmp (unit_restore1 input) "restore_disclosure"
  else if String.eqb fn "restore_all" then cmp (unit_restore_all input) "restore_disclosures"
  else if String.eqb fn "check" then cmp (unit_check input) "check_digests"
  else if String.eqb fn "strip" then cmp (JObj [("o", JStr "ok"); ("v", remove_digests (jget "claims" input))]) "remove_digests"
  else if String.eqb fn "strip_all" then cmp (JObj [("o", JStr "ok"); ("v", strip (jget "claims" input))]) "remove_all_digests"
  else if String.eqb fn "contains" then cmp (unit_contains input) "sd_contains_digest"
  else if String.eqb fn "declared" then cmp (unit_declared input) "declared_hash_alg"
  else if String.eqb fn "fmt" then
    cmp (JObj [("o", JStr "ok"); ("v", JStr (format_path (jstr_or_empty (jget "parent" input)) (jstr_or_empty (jget "key" input))))]) "format_path"
  else if String.eqb fn "dropkb" then cmp (obs_of_out JStr (drop_kb_m (jstr_or_empty (jget "s" input)))) "drop_kb"
  else if String.eqb fn "build" then
    let steps := jlist r in
    if existsb (obs_is "panic") steps then VPropFail "build_disclosure panics"
    else if unit_build_agrees (unit_env rb) (jget "claims" input) (jstrs (jget "paths" input)) (jlist (jget "salts" rb)) steps
            && (Nat.eqb (List.length steps) (List.length (jstrs (jget "paths" input))) || existsb (obs_is "err") steps)
    then VOk true
    else VMismatch "build_disclosure: the model does not reproduce a step (working copy up to the order inside _sd lists, disclosure, or where the fold stops)"
  else if String.eqb fn "reserved" then
    cmp (if has_reserved (jbool (jget "top" input)) (jget "claims" input) then JObj [("o", JStr "err")] else JObj [("o", JStr "ok"); ("v", JNull)]) "reject_reserved_names"
  else if String.eqb fn "decoys" then
    if obs_is "ok" r && negb (Nat.eqb (List.length (jlist (jget "decoys" rb))) (jnat (jget "n" input)))
    then VPropFail "build_decoys does not add the requested number of decoy digests"
    else cmp (unit_decoys input rb) "build_decoys"
  else if String.eqb fn "bv" then
    cmp (JObj [("o", JStr "ok"); ("v", json_of_options (build_validation (policy_of_json (jget "policy" input))))]) "build_validation"
  else if String.eqb fn "bh" then
    cmp (JObj [("o", JStr "ok"); ("v", jheader_json (build_header (header_of_spec (jget "header_spec" input))))]) "build_header"
  else VBad ("unit: unknown function " ++ fn).
