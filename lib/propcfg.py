"""Per-property configuration of ./check: evidence texts, trusted base, known-finding matchers."""
import re

TRUSTED_BASE = [
    "Coq 8.16.1 kernel (coqc; coqchk in the thorough tier); vm_compute for Examples, refuted-witnesses and the in-Coq cross-check; no native_compute",
    "axioms: none (every Print Assumptions block must read 'Closed under the global context')",
    "extraction to OCaml 4.13.1 with ExtrOcamlBasic + ExtrOcamlString only (bool option unit list prod sumbool -> OCaml types; ascii -> char, string -> char list); nat/N/Z stay extracted inductives; cross-checked per run against vm_compute on a sample",
    "ocaml/driver.ml (line splitting and printing only; all case logic is the extracted Coq function run_line)",
    "Rust harness (generators, independent base64/serde_json/sha2 decoding, wire format), ./check (Python), cargo/rustc",
    "hand-written Gallina model tied to /repo only by the differential correspondence run of this check",
]
ASSUMPTIONS = [
    "external crates are oracles of the model: jwt-rustcrypto, serde_json, serde_yaml, base64, sha2, rand, chrono are modelled, not verified",
    "memory safety, stack depth and timing of the compiled Rust are outside the model",
]

PROPS = {
    "C14": {
        "rule": "random claims objects and markings (possibly empty, possibly only nested / only array elements), decoy maxima in [-3,50] or none, 1-3 encode() calls on one "
                "Issuer object, expires_in_seconds on a quarter of the valid cases; every second case carries exactly one invalid path (unknown member, index out of range, "
                "non-numeric / negative / overflowing index, member name into an array, path through a scalar, no leading slash, empty path, path inside an already listed "
                "claim) at a random position of the list. oracle: valid => Ok and round trip (C01) for each call, invalid => Err, never a panic, exp in [t0+n,t1+n]. "
                "non-trivial = invalid-path case, or several calls, or decoy maximum <= 0, or only nested markings; distinct = distinct (kind,input)",
        "explanation": "",
        "trusted_base": [],
        "assumptions": ["the clock (chrono::Utc::now) and thread_rng are oracles: exp and the random draws are read back from the token"],
    },
    "C01": {
        "rule": "random claims objects (depth 2-4, width<=3; empty, numeric-looking, non-ASCII, sibling-prefix keys; equal sibling values) with random non-empty markings "
                "listed descendants first, decoy settings none/1/5, cnf in 1 of 6, HS256 (all 13 algorithms on a 2% subsample): Issuer::encode, read-back of salts, insertion "
                "positions, decoys and shuffle from the token by independent decoding, model must reproduce the token exactly; then Holder::verify vs model; oracle: claims == "
                "original (+cnf), paths == marked paths with names and values. non-trivial = some marked node is nested or an array element; distinct = distinct (kind,input)",
        "explanation": "",
        "trusted_base": [],
        "assumptions": [],
    },
    "C12": {
        "rule": "reference-issued tokens (random claims/markings, sha-256/384/512) with exactly one seeded defect out of 23 kinds (non-array / arity 0,1,4 disclosure; "
                "3-element disclosure in a placeholder; 2-element disclosure in _sd; non-string / _sd / ... name; name collision; the same digest in one _sd twice, in two _sd lists, "
                "in two placeholders, in _sd and placeholder, with and without its disclosure presented; _sd a string/object/number; placeholder with an extra member; unknown / wrongly "
                "cased / missing / non-string _sd_alg), planted in the claims before issuing so that it lands at any nesting level including inside disclosure values; all own "
                "disclosures presented in random order; every fourth case also runs the twin without the defect, which must be accepted. non-trivial = defect case; distinct = distinct (kind,input)",
        "explanation": "oracle: Holder::verify, Verifier::verify and Holder::presentation return Err on the defect token and Ok(original claims) on the twin",
        "trusted_base": [],
        "assumptions": ["issuer JWT signature checking is an oracle of the model (table of harness-signed HS256 tokens)"],
    },
    "C03": {
        "rule": "random claims trees (depth<=3, width<=3) with random markings issued by the harness's reference issuer (sha-256/384/512, decoys, "
                "odd formatting), then adversarial disclosure lists: subsets, permutations, duplicates, disclosures of a second token, foreign/"
                "reserved/non-string names, non-base64, non-JSON, wrong arity, bit substitutions, truncations, empty segments; every third case "
                "is a duplicate-free ancestor-closed subset in random order that must be accepted. non-trivial = the list differs from the "
                "issuer's own list; distinct = distinct (kind,input)",
        "explanation": "theorems over all annotated trees and all lists; correspondence: Holder::verify, Verifier::verify, Holder::presentation+build vs extracted model; "
                       "oracle: Err, or claims = original minus the marks whose disclosure is not presented (Spec.prune)",
        "trusted_base": ["premises of the theorems: hash_inj (the digest function is injective: idealised collision resistance), dec_enc (decoding an encoded disclosure returns its parts)"],
        "assumptions": ["issuer JWT signature checking is an oracle of the model (table of harness-signed HS256 tokens)"],
    },
    "C10": {
        "rule": "exhaustive enumeration of all strings over {a . ~} up to length 8 (quick) / 11 (thorough) through sd_jwt_parts; "
                "a case is non-trivial when the string contains at least one '~' (the splitter takes its indexing path); distinct = distinct (kind,input)",
        "exhaustive": True,
        "explanation": "theorems: the modelled splitters are total (never Panic) on every string; correspondence: model = sdjwt::sd_jwt_parts on the enumerated strings",
        "trusted_base": [],
        "assumptions": ["panics inside serde_json/base64/jwt-rustcrypto are runtime behaviour of oracles; covered only by the malformed-input run"],
    },
}


def matches(k, line, verdict, wire_try):
    """does known finding k (an entry of known_findings.json) cover this failing case?"""
    m = k.get("matcher", {})
    kind = line.split("\t", 1)[0]
    if "kind" in m and m["kind"] != kind:
        return False
    if "verdict_regex" in m and not re.search(m["verdict_regex"], verdict):
        return False
    if "input_regex" in m:
        import json
        parts = line.split("\t")
        inp = json.dumps(wire_try(parts[1]), ensure_ascii=False, sort_keys=True) if len(parts) > 1 else ""
        if not re.search(m["input_regex"], inp):
            return False
    return True
