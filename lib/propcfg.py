"""Per-property configuration of ./check: evidence texts, trusted base, known-finding matchers."""
import re

TRUSTED_BASE = [
    "Coq 8.16.1 kernel (coqc; coqchk in the thorough tier); vm_compute for Examples, refuted-witnesses and the in-Coq cross-check; no native_compute",
    "axioms: none (every Print Assumptions block must read 'Closed under the global context')",
    "extraction to OCaml 4.13.1 with ExtrOcamlBasic + ExtrOcamlString only (bool option unit list prod sumbool -> OCaml types; ascii -> char, string -> char list); nat/N/Z stay extracted inductives; cross-checked per run against vm_compute on a sample",
    "ocaml/driver.ml (line splitting and printing only; all case logic is the extracted Coq function run_line)",
    "Rust harness (generators, independent base64/serde_json/sha2 decoding, wire format), ./check (Python), cargo/rustc",
    "hand-written Gallina model tied to /repo only by the differential correspondence run of this check",
]
ASSUMPTIONS = [
    "external crates are oracles of the model: jwt-rustcrypto, serde_json, serde_yaml, base64, sha2, rand, chrono are modelled, not verified",
    "memory safety, stack depth and timing of the compiled Rust are outside the model",
]

PROPS = {
    "C08": {
        "rule": "tokens built by the harness's reference issuer (independent Rust code): _sd_alg cycling sha-256/384/512, disclosures in random order, odd JSON formatting of "
                "disclosures (pretty-printed, padded with whitespace, spaced separators), salts of 0..64 bytes and non-string salts, decoys in _sd lists of any object and as "
                "array placeholders (half of the cases), recursive disclosures; even cases: all disclosures through Holder::verify, Verifier::verify, Holder::presentation+build, "
                "the extracted model and the independent verifier (three-way agreement with the original claims); odd cases: Holder::presentation -> redact -> build -> "
                "Verifier::verify, and the built presentation judged by the independent verifier. non-trivial = non-default algorithm, decoys, odd formatting or nested marking; "
                "distinct = distinct (kind,input) Added: one sha-256 token in three leaves _sd_alg out (default sha-256); chains of 9-14 recursive disclosures; member names starting like reserved names.",
        "explanation": "",
        "trusted_base": ["premises hash_inj, dec_enc as in C03; RefVerify.v is the independent reference"],
        "assumptions": [],
    },
    "C07": {
        "rule": "(a) library-issued tokens (random claims and markings, decoys in a third, cnf in a sixth) decoded by the harness alone (own base64url decoder, sha2) and judged in "
                "Coq: framing <JWT>~d~...~, each disclosure an array [salt,name,value]/[salt,value] with string salt, _sd_alg declared, each digest embedded exactly once in "
                "payload plus disclosure values, no reserved claim name, and the independent top-down verifier (RefVerify.v) reconstructs the expected claims for every sub-list "
                "of the disclosures (all 2^k for k<=6 quick / 8 thorough, 50 sampled above); (b) Disclosure::new(k,v).salt_len(0..64).algorithm(sha-256/384/512).build(): digest == "
                "independent hash of the string, string decodes to [salt,k,v], salt length as requested, from_base64 round trip, reserved names refused. non-trivial = nested or "
                "array-element markings and all build cases; distinct = distinct (kind,input) Added: one case in eight issues with nothing disclosable; one in eight plants a reserved name (_sd, ..., top-level _sd_alg) in the claims (the issuer must refuse); bound cases in which the claims carry a cnf member of their own (refusal, or a conformant token).",
        "explanation": "",
        "trusted_base": ["RefVerify.v is the reference: a hand-written Gallina rendering of the specification's verification algorithm"],
        "assumptions": [],
    },
    "C15": {
        "rule": "YAML documents emitted by the harness from random (claims, marking): block style with every fifth container in flow style, JSON-quoted keys and scalars (null, booleans, "
                "integers, floats, empty / non-ASCII / quoted strings), !sd on mapping keys at any depth (also inside sequences, below tagged keys, in single-entry mappings) and on "
                "string sequence items; parse_yaml vs the model run on the value tree serde_yaml builds from the same text; oracle: claims == C, set(paths) == M, no enclosing path "
                "before a nested one; then Issuer(C).iter_disclosable(paths).encode + Holder::verify == C. non-trivial = a tag below depth 1 or below another tag; distinct = distinct (kind,input) Added: keys containing '/' and '~' (paths are RFC 6901 pointers); 112 documents with tags where the library does not support them (on a value, foreign tags, !sd on non-string items) with the oracle 'refuse, or return the claims of the document without its tags'.",
        "explanation": "",
        "trusted_base": ["YAML text -> value tree is serde_yaml (oracle): the model starts from the tree the harness obtains with serde_yaml::from_str on the same text"],
        "assumptions": [],
    },
    "C13": {
        "rule": "(a) one history case: 33 000 (quick) / 480 000 (thorough) issuances of one document with 13 disclosable claims (4 top-level, 4 nested, 4 inside a claim that is itself "
                "disclosable) and decoy maxima cycling 1..50, every second issuer object used for two encode() calls, 16 threads pooled into one set: salts >= 16 bytes, salts / "
                "digests / decoys pairwise distinct, decoys never equal to real digests and of the same form, decoy count in [1,max], every kind of digest list (top-level, nested, "
                "inside a disclosed value) observed >= 200 times and not constantly in marking order; (b) 1 500 / 20 000 random issuances with decoys replayed by the model issuer "
                "from the read-back salts, insertion positions, decoys and shuffle. non-trivial = all; distinct = distinct (kind,input) Added to the history: every fourth issuer object is a one-claim credential (top-level lists in which all real digests precede all decoys are counted); decoys that are the sha-256 image (of the text or of the decoded bytes) of another list entry, a disclosure or a salt are counted.",
        "explanation": "the history run is statistical support for the premises of the structure theorems (fresh draws, large decoy space, shuffled lists), not a proof of them",
        "trusted_base": [],
        "assumptions": ["that thread_rng draws are distinct, unpredictable and uniform is runtime behaviour outside the model"],
    },
    "C04": {
        "rule": "for each of the 13 algorithms one token signed by the harness through sdjwt::encode: (a) single-character substitutions and single-bit flips at 200 sampled "
                "(quick) / all (thorough) positions of the three segments, (b) every (key, configured algorithm) pair of the 13x13 matrix, (c) the public key's PEM bytes used as "
                "HMAC secret under every HMAC policy, (d) header rewritten to HS256 and re-signed with the public PEM as secret; each through decode, Holder::verify and "
                "Verifier::verify. oracle: accepted iff untouched token, matching key, configured algorithm == signing algorithm. model run with the ideal signature oracle "
                "(true exactly on the recorded signed token). non-trivial = any case other than the untouched token; distinct = distinct (kind,input) Added: byte-inexact SD-JWT strings around the untouched JWT (white space before/after); ECDSA signatures re-encoded as DER and mirrored (r, n-s) - known findings KF-2, KF-3; related HMAC keys (base64url/base64/hex text of the secret, +newline, -1 byte, reversed, upper-cased); HMAC secrets of 13 lengths around the block sizes signed by an independent RFC 2104 implementation and compared byte for byte with the library's signature.",
        "explanation": "",
        "trusted_base": ["ideal_sig premise of C04_only_exact: unforgeability is a computational assumption about RustCrypto, not proved",
                         "jwt_rustcrypto::decode is a modelled dependency (Jwt.v), validated by this correspondence run only"],
        "assumptions": ["signature malleability, constant-time comparison and key parsing are runtime/crate behaviour the model does not exhibit"],
    },
    "C16": {
        "rule": "all 2^9 subsets of the optional header fields (typ cty jku kid x5u x5c x5t x5t_s256 crit) x value classes (ASCII, empty, non-ASCII, quotes/backslashes, long; "
                "lists of length 0/1/3) on HS256 (2 rounds quick / 30 thorough), plus sampled subsets on all 13 algorithms; Issuer::new(..).header(h).encode, then decode, "
                "Holder::verify, Verifier::verify. oracle: returned header == {alg} + exactly the set fields under their member names; the model's build_header+serialisation "
                "must print the header the token carries. non-trivial = at least one optional field set; distinct = distinct (kind,input) Added: value classes drawn per field or per header; x5c entries that look like DER certificates (standard base64 'MII...'); lists with repeated entries ([s,s], [s,t,t,u], [s,t,s]); thumbprints of SHA-1 / SHA-256 length (27 / 43 characters, with and without padding) under both members.",
        "explanation": "",
        "trusted_base": ["serde serialisation of the JWT library's header type is an oracle (jheader_json mirrors its declared member names)"],
        "assumptions": ["the embedded-JWK header field is excluded (the JWT library re-types it), as in the property"],
    },
    "C11": {
        "rule": "(i) every transition of the closure: all policies reachable from default()/new(HS256)/new(ES256) by 14 builder steps (2 audiences, 2 issuers, 2 subjects, leeway 0/60, "
                "3 algorithms, 2 required-claim names), each step applied to each reachable policy in the implementation and in the model, frame condition judged on the "
                "observed policies; (ii) for 300 sampled (quick) / all (thorough) reachable policies (validate_nbf switched on in a third): one token satisfying every constraint and "
                "tokens violating exactly one (exp past / within leeway / missing / string, nbf future / within leeway / missing, aud other / array / missing, iss, sub, required "
                "claim missing, other algorithm), margins 30 s, through decode, Holder::verify and Verifier::verify. non-trivial = any builder transition or violating token; "
                "distinct = distinct (kind,input) Added: the key-binding policy handed to Verifier::verify (algorithm, audience, cnf JWK with its own alg member) through the verify kind.",
        "exhaustive": True,
        "explanation": "the builder closure is enumerated completely (finite alphabet); enforcement is sampled in the quick tier",
        "trusted_base": ["jwt_rustcrypto::validate and decode are a modelled dependency (Jwt.v), validated by this correspondence run only"],
        "assumptions": ["time values for which exp+leeway or nbf-leeway overflow u64 are excluded (known finding KF-1 of C10)"],
    },
    "C05": {
        "rule": "bound reference-issued tokens (cnf = RSA JWK, sha-256/384/512) presented with harness-crafted KB-JWTs: 28 kinds cycling - valid (policy aud set / unset / aud array), "
                "signed by another RSA key, other algorithm, typ missing / JWT-like, sd_hash over another string / the JWT only / the presentation without its final '~' / under "
                "another hash algorithm / missing / non-string, aud unexpected / missing, no key-binding policy, disclosure dropped / added / duplicated / reordered / replaced "
                "after binding, KB stripped, KB on an unbound token, cnf not RSA / e missing / n not a string / n not base64 / cnf null. KB validity table filled by an "
                "independent RSA verification; oracle: Verifier::verify accepts iff no defect. non-trivial = defect case; distinct = distinct (kind,input) Added kinds: sd_hash prefix / empty / extended / case-flipped / padded / prefix with a dropped disclosure; cnf JWK with an alg member (differs from the policy: KB under the policy algorithm accepted, KB under the JWK's algorithm rejected); issue-kind cases with key binding and a path /cnf (must fail).",
        "explanation": "",
        "trusted_base": ["KB-JWT signature validity and policy evaluation inside jwt-rustcrypto enter the model as the o_kb oracle"],
        "assumptions": [],
    },
    "C09": {
        "rule": "bound tokens (library-issued and reference-issued with sha-256/384/512), random redaction sets, key binding with RS256/384/512 and PS256/384/512, audiences incl. empty "
                "and non-ASCII, 3 repeated build() calls per holder, verifier policies with matching / no / other audience. oracle per build: header == {alg, typ: kb+jwt}, aud as "
                "supplied, iat within the call's [t0,t1], nonce 32 alphanumerics and pairwise distinct across the builds, sd_hash == independent sha2 hash (under the token's "
                "_sd_alg) of the presentation up to and including its last '~', signature verified by an independent RSA check (rsa crate directly), same disclosures every build; "
                "the verifier accepts iff the policy's algorithm and audience fit. all cases non-trivial; distinct = distinct (kind,input) Added: staged cases (build, redact on the same Holder, build, redact, build - every KB-JWT commits to its own presentation); claims named like KB-JWT claims (iat in the future / past / non-integer, nonce, aud, sd_hash, nbf); cnf JWKs with an alg member other than the supplied algorithm.",
        "explanation": "",
        "trusted_base": [],
        "assumptions": ["freshness/unpredictability of the nonce and the clock are properties of thread_rng and chrono: oracles of the model; the run only checks distinctness and the iat window"],
    },
    "C06": {
        "rule": "as C02, but every marked node carries a unique sentinel (#k<i>#name for members, #v<i># for scalar values); unbound tokens from the library and the reference "
                "issuer; random redaction sets incl. junk paths. oracle: (a) no sentinel occurs in the base64-decoded header/payload of the issuer JWT, (b) the built presentation "
                "carries exactly the disclosures of marks that are neither redacted nor below a redacted mark (count and identity), (c) sentinels of withheld marks occur in no "
                "decoded segment of the presentation. non-trivial = at least one marked path is redacted; distinct = distinct (kind,input) Added: redaction density varies; one case in ten issues 2-3 credentials from the same Issuer object (every one must hide its disclosable claims).",
        "explanation": "",
        "trusted_base": [],
        "assumptions": ["'no byte' is checked on the base64-decoded JSON text of every segment; that base64/JSON printing adds no other information is the encoding oracle"],
    },
    "C02": {
        "rule": "random claims/markings; tokens issued alternately by the library (HS256, decoys sometimes) and by the reference issuer (sha-256/384/512, decoys, odd formatting, "
                "shuffled disclosures), every fifth bound to the RSA holder key; redaction sets = random subsets of the marked paths plus (1 in 3) non-disclosable, non-existent, "
                "slash-less and sibling-prefix strings, in random order; Holder::presentation -> redact* -> key_binding? -> build -> Verifier::verify. model must reproduce the "
                "presentation string; oracle: presentation carries exactly the disclosures not withheld, verifier claims == original minus withheld (Spec.prune). "
                "non-trivial = non-empty redaction list; distinct = distinct (kind,input) Added: redaction density varies per case (none / one / 1 in den); chains of 9-14 recursive disclosures; cnf JWKs decorated with alg/use/kid; claims carrying \"cnf\": null (unbound).",
        "explanation": "",
        "trusted_base": [],
        "assumptions": ["KB-JWT signature validity is an oracle of the model, filled by an independent RSA verification in the harness"],
    },
    "C14": {
        "rule": "random claims objects and markings (possibly empty, possibly only nested / only array elements), decoy maxima in [-3,50] or none, 1-3 encode() calls on one "
                "Issuer object, expires_in_seconds on a quarter of the valid cases; every second case carries exactly one invalid path (unknown member, index out of range, "
                "non-numeric / negative / overflowing index, member name into an array, path through a scalar, no leading slash, empty path, path inside an already listed "
                "claim) at a random position of the list. oracle: valid => Ok and round trip (C01) for each call, invalid => Err, never a panic, exp in [t0+n,t1+n]. "
                "non-trivial = invalid-path case, or several calls, or decoy maximum <= 0, or only nested markings; distinct = distinct (kind,input) Added kinds: into_digest_list (/x then /_sd/0), repeat_array_element, repeat_member, into_placeholder, cnf_path_with_key_binding, own_cnf_with_key_binding, reserved_name (claims with _sd / ... / top-level _sd_alg); lifetimes requested again between encode() calls, claims that already carry exp, lifetimes up to i64::MAX (no panic, saturating).",
        "explanation": "",
        "trusted_base": [],
        "assumptions": ["the clock (chrono::Utc::now) and thread_rng are oracles: exp and the random draws are read back from the token"],
    },
    "C01": {
        "rule": "random claims objects (depth 2-4, width<=3; empty, numeric-looking, non-ASCII, sibling-prefix keys; equal sibling values) with random non-empty markings "
                "listed descendants first, decoy settings none/1/5, cnf in 1 of 6, HS256 (all 13 algorithms on a 2% subsample): Issuer::encode, read-back of salts, insertion "
                "positions, decoys and shuffle from the token by independent decoding, model must reproduce the token exactly; then Holder::verify vs model; oracle: claims == "
                "original (+cnf), paths == marked paths with names and values. non-trivial = some marked node is nested or an array element; distinct = distinct (kind,input) Families added after the seeding rounds: member names containing '/', '~', starting like reserved names (_sdk, ...., ...x), nested _sd_alg members; every 40th case a chain of 9-14 recursive disclosures; bounded-exhaustive part first: every claims object with <= 3 (quick) / 4 (thorough) nodes and every non-empty marking of it.",
        "explanation": "",
        "trusted_base": [],
        "assumptions": [],
    },
    "C12": {
        "rule": "reference-issued tokens (random claims/markings, sha-256/384/512) with exactly one seeded defect out of 23 kinds (non-array / arity 0,1,4 disclosure; "
                "3-element disclosure in a placeholder; 2-element disclosure in _sd; non-string / _sd / ... name; name collision; the same digest in one _sd twice, in two _sd lists, "
                "in two placeholders, in _sd and placeholder, with and without its disclosure presented; _sd a string/object/number; placeholder with an extra member; unknown / wrongly "
                "cased / missing / non-string _sd_alg), planted in the claims before issuing so that it lands at any nesting level including inside disclosure values; all own "
                "disclosures presented in random order; every fourth case also runs the twin without the defect, which must be accepted. non-trivial = defect case; distinct = distinct (kind,input) A missing _sd_alg is no longer on the defect list (the specification prescribes the default sha-256: accept case of C08).",
        "explanation": "oracle: Holder::verify, Verifier::verify and Holder::presentation return Err on the defect token and Ok(original claims) on the twin",
        "trusted_base": [],
        "assumptions": ["issuer JWT signature checking is an oracle of the model (table of harness-signed HS256 tokens)"],
    },
    "C03": {
        "rule": "random claims trees (depth<=3, width<=3) with random markings issued by the harness's reference issuer (sha-256/384/512, decoys, "
                "odd formatting), then adversarial disclosure lists: subsets, permutations, duplicates, disclosures of a second token, foreign/"
                "reserved/non-string names, non-base64, non-JSON, wrong arity, bit substitutions, truncations, empty segments; every third case "
                "is a duplicate-free ancestor-closed subset in random order that must be accepted. non-trivial = the list differs from the "
                "issuer's own list; distinct = distinct (kind,input) Added: bounded-exhaustive part first (every claims object with <= 3/4 nodes, every marking, every order of the disclosure list, every list with one disclosure left out); chains of 9-14 recursive disclosures; one sha-256 token in six without _sd_alg.",
        "explanation": "theorems over all annotated trees and all lists; correspondence: Holder::verify, Verifier::verify, Holder::presentation+build vs extracted model; "
                       "oracle: Err, or claims = original minus the marks whose disclosure is not presented (Spec.prune)",
        "trusted_base": ["premises of the theorems: hash_inj (the digest function is injective: idealised collision resistance), dec_enc (decoding an encoded disclosure returns its parts)"],
        "assumptions": ["issuer JWT signature checking is an oracle of the model (table of harness-signed HS256 tokens)"],
    },
    "C10": {
        "rule": "(i) all strings over {a . ~} up to length 8 (quick) / 11 (thorough) through sd_jwt_parts (exact result vs model) and up to length 6 / 9 through Holder::verify, "
                "Verifier::verify (with and without KB policy), Holder::presentation+build (outcome class vs model) and through the entry points without a model (from_base64, "
                "HashAlgorithm::try_from, decode, verify_kb, Jwk::from_value, KeyForDecoding/KeyForEncoding::from_*, parse_yaml: no panic); (ii) 1 500 / 20 000 structure-aware "
                "mutations of valid reference-issued tokens: every JSON type for _sd, _sd_alg, cnf and its kty/n/e, validly signed payloads of every JSON type, odd placeholders, "
                "disclosures of any JSON type / arity, truncated base64, invalid UTF-8, segment deletion / duplication, bogus KB segments; 10^3 disclosures with a 2*10^4-entry _sd; "
                "(iii) compounded nesting 100..20 000 levels run in a child process on a 2 MiB thread; (iv) exp/nbf at the edge of u64 through the JWT library; (v) 21 malformed / "
                "mis-tagged / deeply nested YAML documents. non-trivial = input reaching beyond the first splitter; distinct = distinct (kind,input) Added: family (ii') - every rejection and acceptance path with 300-byte strings of 2-, 3- and 4-byte characters at both parities (names, digests, algorithm names, cnf members, raw segments, the token string itself).",
        "exhaustive": True,
        "explanation": "the enumeration of strings over {a . ~} up to the stated length is complete; the other streams are sampled",
        "trusted_base": [],
        "assumptions": ["panics, aborts and non-termination inside serde_json, serde_yaml, base64, jwt-rustcrypto, RustCrypto and pem parsing, and stack exhaustion, are runtime behaviour of "
                        "code the model treats as oracles; they are covered only by the malformed-input streams of this run"],
    },
}


# ---- generator families and kinds added in the fourth session (function-level kind "unit", seeding round 6, F24-F26)
_UNIT_RESTORE = ("function-level kind 'unit' through the cfg(sdjwt_verif) hooks of /repo: restore_disclosure (= Model2.restore1), restore_disclosures "
                 "(= Restore2.restore_disclosures; with an empty list = check_digests), remove_digests / remove_all_digests (= Restore2.remove_digests / strip), "
                 "sd_contains_digest, declared_hash_alg, format_path, drop_kb on reference-issued payloads (a third of them with one structural defect), disclosure lists "
                 "with subsets, permutations, repetitions and junk, and on the tree at every stage of a restoration - outcome and result (tree before stripping, path "
                 "list in order, restored flag) must equal the Gallina function's; switched off, with a note, when the hooks do not compile against the tree")
_UNIT_ISSUER = ("function-level kind 'unit': build_disclosure folded over a path list on one working copy (valid markings, bad / repeated / reversed paths, reserved "
                "names planted), reject_reserved_names, build_decoys - every step's working copy and disclosure must be reproduced by Issuer2.build_disclosure / "
                "has_reserved / add_decoys from the read-back salt, insertion position and decoy digests")
_ADDED4 = {
    "C01": _UNIT_RESTORE + "; " + _UNIT_ISSUER + "; arbitrary finite doubles planted into one claims document in five (a JSON number comes back as the same number: finding F24)",
    "C02": _UNIT_RESTORE + "; one unbound case in four is a session on one Holder (build, redact more, build, redact more, build); arbitrary doubles",
    "C03": _UNIT_RESTORE + "; family dup_nested: a digest embedded twice with one copy inside the value of a recursive disclosure P (or both inside P), its own disclosure absent, once or twice, six orders - every list containing P must be rejected; arbitrary doubles",
    "C04": "function-level kind 'unit': build_validation on every reachable policy and 400 arbitrary ones, the options handed to the JWT library must equal Jwt.build_validation",
    "C05": _UNIT_RESTORE,
    "C06": _UNIT_ISSUER + "; one case in three is a session on one Holder (build, redact more, build, redact more, build): what was redacted after an earlier build is withheld by the later ones",
    "C07": _UNIT_ISSUER + "; the conform kind encodes 1-3 times on the same Issuer (one case in five), one case in twelve after a failed first attempt with a key of the wrong family: every token is judged",
    "C08": _UNIT_RESTORE + "; one foreign presentation in three is key-bound: the KB-JWT the library's holder attaches is judged with the independent hash under the declared algorithm (sha-256/384/512); arbitrary doubles",
    "C09": _UNIT_RESTORE + "; one case in five calls key_binding twice on the same Holder with different audience / algorithm: the KB-JWT is built from the parameters supplied last",
    "C11": "function-level kind 'unit': build_validation on every reachable policy and 400 arbitrary ones",
    "C12": _UNIT_RESTORE + "; family dup_nested (see C03)",
    "C13": _UNIT_ISSUER + "; every issued token with .decoy(max) carries between 1 and max decoys (decoy_oracle, every encode call)",
    "C14": _UNIT_ISSUER + "; decoy_oracle: with .decoy(max >= 1) every SD-JWT of the issuer object, the first and every later one, carries between 1 and max decoy digests",
    "C15": "one tagged document in six spells the tag differently (%TAG !x! !s + !x!d, %TAG ! !s + !d, !s%64); mapping keys that are numbers, booleans or null above tagged keys and items (finding F25); documents whose keys collide once the tag is removed must be refused (finding F26)",
    "C16": "crit entries drawn from extension names, claim names and the names of the registered header parameters themselves",
}
for _k, _v in _ADDED4.items():
    PROPS[_k]["rule"] += " Added in the fourth session: " + _v + "."
TRUSTED_BASE.append("hooks in /repo (cfg sdjwt_verif; src/verif_hooks.rs and a verif_hooks module at the end of issuer.rs / decoding.rs; build.rs declares the cfg name): thin wrappers that make crate-private functions callable, no behaviour of their own")

# round 10 (size and count thresholds)
_LARGE = "large documents (gen::large_claims_and_marking: arrays of 300 and of 10000+ elements with disclosable elements at indices of one to five digits, 260-330 disclosable members at top level and in a nested object, names and values of 2-8 KB, nesting of 30-55 levels, 12-17 arrays of objects with nested marks, integer limits, digests deep inside disclosed values with more than 32 disclosures; up to 1000 decoys)"
_ADDED5 = {
    "C01": _LARGE,
    "C02": _LARGE + ", presented with redactions",
    "C03": _LARGE + " issued by the reference issuer, all disclosures in any order",
    "C04": "RSA keys handed over as modulus and exponent with the exponent padded by zero octets (same key: accept) or changed in a high octet only, at 2^24, 2^32, 2^64, 2^128 (another key: reject)",
    "C05": "one round in five of every tampering kind carries a portrait of 5-12 KB, disclosable or not (presentations beyond 8 KB)",
    "C06": _LARGE + ", disclosures of every presentation judged",
    "C07": _LARGE + " through the independent verifier; Disclosure::build on values of 1-20 KB; claims that are not a JSON object must be refused (finding F29)",
    "C08": _LARGE + " from the reference issuer through Holder::verify / Verifier::verify / presentation",
    "C09": "one bound presentation in eight carries a portrait of 3-12 KB (the text the KB-JWT commits to is longer than any block of a streaming hasher)",
    "C10": "cnf keys whose exponent has 0-300 octets and whose modulus has any length, with and without a KB-JWT, through verify_kb and Verifier::verify",
    "C12": "disclosure arrays of 258, 259, 514, 515 and 65539 elements referenced from a digest list (lengths that are 2 or 3 modulo 256 / 65536)",
    "C13": "history statistic on nested digest lists of 320 entries (in the payload and inside a disclosed value): the claim marked last must not sit in the first quarter, nor the claim marked first in the last quarter, in more than 60% of the issuances",
    "C14": _LARGE + " as valid preconditions; claims that are not a JSON object are an error (finding F29), never a panic",
    "C15": "sequences of 1100 and 66000 items with tagged items at indices of one to five digits (255/256, 9999/10000, 32767/32768, 65535/65536)",
    "C16": "an issuer that issued once under another header and was then given K headers in a row, K in 2, 16, 17, 255, 256, 257, 512, 65536; the token carries the last one",
}
for _k, _v in _ADDED5.items():
    PROPS[_k]["rule"] += " Added in round 10: " + _v + "."

def matches(k, line, verdict, wire_try):
    """does known finding k (an entry of known_findings.json) cover this failing case?"""
    m = k.get("matcher", {})
    kind = line.split("\t", 1)[0]
    if "kind" in m and m["kind"] != kind:
        return False
    if "verdict_regex" in m and not re.search(m["verdict_regex"], verdict):
        return False
    if "input_regex" in m:
        import json
        parts = line.split("\t")
        inp = json.dumps(wire_try(parts[1]), ensure_ascii=False, sort_keys=True) if len(parts) > 1 else ""
        if not re.search(m["input_regex"], inp):
            return False
    return True
