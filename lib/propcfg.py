"""Per-property configuration of ./check: evidence texts, trusted base, known-finding matchers."""
import re

TRUSTED_BASE = [
    "Coq 8.16.1 kernel (coqc; coqchk in the thorough tier); vm_compute for Examples, refuted-witnesses and the in-Coq cross-check; no native_compute",
    "axioms: none (every Print Assumptions block must read 'Closed under the global context')",
    "extraction to OCaml 4.13.1 with ExtrOcamlBasic + ExtrOcamlString only (bool option unit list prod sumbool -> OCaml types; ascii -> char, string -> char list); nat/N/Z stay extracted inductives; cross-checked per run against vm_compute on a sample",
    "ocaml/driver.ml (line splitting and printing only; all case logic is the extracted Coq function run_line)",
    "Rust harness (generators, independent base64/serde_json/sha2 decoding, wire format), ./check (Python), cargo/rustc",
    "hand-written Gallina model tied to /repo only by the differential correspondence run of this check",
]
ASSUMPTIONS = [
    "external crates are oracles of the model: jwt-rustcrypto, serde_json, serde_yaml, base64, sha2, rand, chrono are modelled, not verified",
    "memory safety, stack depth and timing of the compiled Rust are outside the model",
]

PROPS = {
    "C10": {
        "rule": "exhaustive enumeration of all strings over {a . ~} up to length 8 (quick) / 11 (thorough) through sd_jwt_parts; "
                "a case is non-trivial when the string contains at least one '~' (the splitter takes its indexing path); distinct = distinct (kind,input)",
        "exhaustive": True,
        "explanation": "theorems: the modelled splitters are total (never Panic) on every string; correspondence: model = sdjwt::sd_jwt_parts on the enumerated strings",
        "trusted_base": [],
        "assumptions": ["panics inside serde_json/base64/jwt-rustcrypto are runtime behaviour of oracles; covered only by the malformed-input run"],
    },
}


def matches(k, line, verdict, wire_try):
    """does known finding k (an entry of known_findings.json) cover this failing case?"""
    m = k.get("matcher", {})
    kind = line.split("\t", 1)[0]
    if "kind" in m and m["kind"] != kind:
        return False
    if "verdict_regex" in m and not re.search(m["verdict_regex"], verdict):
        return False
    if "input_regex" in m:
        import json
        parts = line.split("\t")
        inp = json.dumps(wire_try(parts[1]), ensure_ascii=False, sort_keys=True) if len(parts) > 1 else ""
        if not re.search(m["input_regex"], inp):
            return False
    return True
