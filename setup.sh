#!/bin/bash
# MANIFEST.setup_cmd: build everything once from files on disk (offline).
set -e
cd "$(dirname "$0")"
export CARGO_NET_OFFLINE=true
mkdir -p .cache/ocaml evidence
( cd coq && coq_makefile -f _CoqProject -o Makefile >/dev/null 2>&1 && timeout 3000 make -j16 > ../.cache/coq_build.log 2>&1 ) || { tail -40 .cache/coq_build.log; exit 1; }
cp coq/extract/Extract.v ocaml/driver.ml .cache/ocaml/
( cd .cache/ocaml && coqc -Q ../../coq/theories SDJ Extract.v && ocamlfind ocamlopt -O3 -package str model.mli model.ml driver.ml -o driver 2>&1 | tail -5 )
rm -f .cache/ocaml/stamp
( cd harness && CARGO_TARGET_DIR=../.cache/target RUSTFLAGS="--cfg sdjwt_verif" cargo build --offline 2>&1 | tail -3 )
test -x .cache/ocaml/driver && test -x .cache/target/debug/sdjwt-verif-harness && echo "setup ok"
